#!/bin/bash
# Runs every check of one tier sequentially and prints one line per check.
#   tools/run_all.sh <quick|thorough> [IDs...]
TIER=${1:-quick}; shift
IDS=${@:-C01 C02 C03 C04 C05 C06 C07 C08 C09 C10 C11 C12 C13 C14 C15 C16 C17 C18}
cd /verif
for c in $IDS; do
    s=$(date +%s)
    ./check $c $TIER > work/run-$TIER-$c.log 2>&1; rc=$?
    e=$(date +%s)
    echo "$c $TIER exit=$rc $((e-s))s $(grep -E '^(HELD|VIOLATION|INCONCLUSIVE)' work/run-$TIER-$c.log | head -1)"
done
