#!/bin/bash
# Applies a patch to /repo, runs the given checks (quick) against it and reverts the patch.
#   tools/try_mutant.sh <patch.diff> <ID> [<ID>...]
# Prints one line per check: <ID> exit=<code> and the first refutation. Never leaves /repo modified.
set -u
PATCH=$(readlink -f "$1"); shift
if [ -n "$(git -C /repo status --porcelain --untracked-files=no)" ]; then
    echo "/repo is not clean; refusing"; exit 2
fi
if ! git -C /repo apply --check "$PATCH" 2>/dev/null; then
    echo "patch does not apply to /repo HEAD"; exit 2
fi
git -C /repo apply "$PATCH"
trap 'git -C /repo checkout -- . >/dev/null 2>&1' EXIT
cd /verif
for ID in "$@"; do
    out=/verif/work/mutant-$ID.out
    # evidence of runs against a changed tree must not replace the evidence of the unchanged tree
    VERIF_EVIDENCE_OUT=/verif/work/mutant-evidence-$ID.json timeout ${MUTANT_TIMEOUT:-900} ./check $ID ${MUTANT_TIER:-quick} >$out 2>&1
    rc=$?
    echo "$ID exit=$rc $(grep -m1 -E '^  refuted|^INCONCLUSIVE' $out | cut -c1-260)"
done
