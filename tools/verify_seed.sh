#!/bin/bash
# Confirms a seeded change independently in its scratch worktree:
#   existing tests pass with the change; the demonstration passes without and fails with it.
# usage: tools/verify_seed.sh NN
set -u
NN=$1
WT=/tmp/seed/wt$NN; OUT=/tmp/seed/out$NN
export CARGO_NET_OFFLINE=true RUST_BACKTRACE=0
cd $WT || exit 2
git checkout -q -- . ; rm -f scnr/tests/demo_$NN.rs
[ -f $OUT/patch.diff ] && [ -f $OUT/demo.rs ] || { echo "seed $NN: deliverables missing"; exit 2; }
cp $OUT/demo.rs scnr/tests/demo_$NN.rs
cargo test --offline -p scnr --test demo_$NN >$OUT/verify-demo-clean.log 2>&1; d0=$?
git apply $OUT/patch.diff || { echo "seed $NN: patch does not apply"; exit 2; }
cargo test --offline -p scnr --test demo_$NN >$OUT/verify-demo-mutant.log 2>&1; d1=$?
rm -f scnr/tests/demo_$NN.rs
cargo test --workspace --no-fail-fast --offline >$OUT/verify-suite-mutant.log 2>&1; s1=$?
cargo build --offline -p scnr --features verif_hooks >$OUT/verify-hooks-build.log 2>&1; h1=$?
git checkout -q -- . ; rm -f scnr/tests/demo_$NN.rs
echo "seed $NN: demo_on_clean=$d0 (want 0) demo_on_mutant=$d1 (want !=0) suite_on_mutant=$s1 (want 0) hooks_build=$h1 (want 0)"
if [ $d0 -eq 0 ] && [ $d1 -ne 0 ] && [ $s1 -eq 0 ] && [ $h1 -eq 0 ]; then echo "seed $NN: CONFIRMED"; else echo "seed $NN: NOT CONFIRMED"; fi
