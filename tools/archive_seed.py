#!/usr/bin/env python3
"""Archives a confirmed seeded change under /verif/seeded/<id>/.
usage: archive_seed.py <NN or name> <dest id> '<json: {"caught_by": {...}, "missed_by": {...}, "notes": "..."}>'"""
import json, sys, shutil, os
nn, dest, extra = sys.argv[1], sys.argv[2], json.loads(sys.argv[3])
src = f'/tmp/seed/out{nn}'
dst = f'/verif/seeded/{dest}'
os.makedirs(dst, exist_ok=True)
shutil.copy(f'{src}/patch.diff', f'{dst}/patch.diff')
shutil.copy(f'{src}/demo.rs', f'{dst}/demo.rs')
meta = json.load(open(f'{src}/meta.json'))
meta['confirmed'] = {
    'how': f'tools/verify_seed.sh {nn} in the scratch worktree /tmp/seed/wt{nn} (removed afterwards): demo passes on the unchanged code, fails with the change; `cargo test --workspace --no-fail-fast --offline` passes with the change; builds with --features verif_hooks',
    'result': 'CONFIRMED',
}
meta['checks_run'] = 'tools/try_mutant.sh <patch> <IDs> (git -C /repo apply; ./check <ID> quick; git -C /repo checkout -- .)'
meta.update(extra)
json.dump(meta, open(f'{dst}/meta.json', 'w'), indent=1, ensure_ascii=False)
print('archived', dst)
