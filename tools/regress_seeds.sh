#!/bin/bash
# Re-runs the quick check of the property of every archived seeded change against that change and
# reports whether it is (still) caught. Usage: [PROPS="C01 C05"] tools/regress_seeds.sh [--with-c17]
cd /verif
WITH17=${1:-}
ok=0; bad=0
for d in seeded/*/; do
    id=$(basename $d)
    prop=$(python3 -c "import json;print(json.load(open('$d/meta.json'))['property'])")
    if [ -n "${PROPS:-}" ] && ! echo " $PROPS " | grep -q " $prop "; then continue; fi
    if [ "$prop" = C17 ] && [ "$WITH17" != --with-c17 ]; then echo "$id: skipped (C17, pass --with-c17)"; continue; fi
    if ! git -C /repo apply --check /verif/$d/patch.diff 2>/dev/null; then echo "$id: patch no longer applies"; bad=$((bad+1)); continue; fi
    r=$(MUTANT_TIMEOUT=1500 tools/try_mutant.sh $d/patch.diff $prop | tail -1)
    case "$r" in
        *"exit=1"*) ok=$((ok+1)); echo "$id: caught by $prop";;
        *) bad=$((bad+1)); echo "$id: NOT caught by $prop ($r)";;
    esac
done
echo "caught=$ok not_caught=$bad"
