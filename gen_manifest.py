#!/usr/bin/env python3
"""Writes /verif/MANIFEST.json from the table below (kept in one place so it stays consistent)."""
import json, subprocess
ALL = [json.loads(l)['id'] for l in open('/verif/properties.jsonl')]
def hook_commits():
    out = subprocess.run(['git','-C','/repo','log','--format=%h %s'],capture_output=True,text=True).stdout
    return [l.split()[0] for l in out.splitlines() if 'verif_hooks' in l or 'verif hook' in l.lower()]
C = {}
def add(pid, cat, text, note, technique, design_ref, thorough=True):
    C[pid] = {
        "property_id": pid,
        "quick_cmd": f"./check {pid} quick",
        **({"thorough_cmd": f"./check {pid} thorough"} if thorough else {}),
        "evidence_file": f"/verif/evidence/{pid}.json",
        "replay_cmd_template": "./check replay {path}",
        "engine": "vharness",
        "level_claimed": {"category": cat, "text": text, "design_ref": design_ref},
        "level_note": note,
        "technique": technique,
    }
add("C01","exploration",
    "Runtime monitoring: the real scanner is run on tens of thousands (quick) to millions (thorough) of generated (mode, input) pairs plus an exhaustively enumerated sub-space of small patterns and inputs; every token stream is compared online with an independent denotational reference of the longest-match/first-pattern/skip rule. Held = the oracle was silent on everything executed and the trigger-event floors (ties, later-pattern-wins, skips, multi-byte tokens, nullable patterns) were reached.",
    "Trusted: the harness's IR printer and denotational matcher (cross-checked against a derivative-based matcher in the self-test); regex-syntax only as a guard; named classes outside ASCII calibrated on the scanner itself. Not covered: configurations and inputs the generators do not produce.",
    "reference-model monitor over executions (differential oracle), random + exhaustive small-scope workloads", "DESIGN.md 6/C01")
add("C04","exploration",
    "Runtime monitoring of lookahead gating: every token reported by the real scanner over generated lookahead modes, inputs and start offsets is checked for soundness (pattern matches its text, lookahead condition holds at its end) and every skipped position for completeness, against the denotational reference.",
    "Same trusted base as C01. Lookahead patterns are non-nullable, one lookahead per token type per mode, byte lengths.",
    "reference-model monitor over executions, random + directed workloads, start offsets via with_offset", "DESIGN.md 6/C04")
add("C05","exploration",
    "Runtime monitoring of candidate selection: every reported token must be a candidate of maximal extent of the first listed pattern per the trailing-context rule; all priority orders of sampled pattern multisets and a directed family of length interleavings; panics captured per scan.",
    "Same trusted base as C01. Ties between several lengths of one pattern are left open by the statement and accepted.",
    "reference-model monitor over executions + panic capture, random + permutation + directed workloads", "DESIGN.md 6/C05")
add("C06","exploration",
    "Runtime monitoring of mode switching against a sequential model (position, mode) on a pattern family whose tokenization is computable by a 10-line function; every token, every current_mode() reading after every call and every mode_name are compared over random mode graphs and call histories.",
    "Trusted: the 10-line keyword tokenizer of the harness. Transition lists sorted with distinct token types (the documented precondition).",
    "sequential-model monitor over recorded call histories", "DESIGN.md 6/C06")
add("C07","exploration",
    "Invariant monitoring: every scan of every workload goes through a well-formedness monitor (non-empty spans on character boundaries inside the input, ordered, at most one token per character, None stays None) with panic capture; own hostile workload of nullable patterns, lookaheads, zero-pattern modes, long inputs and random call histories. Debug-assertion build run in addition.",
    "Invariants only; says nothing about which tokens are right (C01/C04/C05).",
    "online invariant monitor + panic capture over hostile and stress workloads", "DESIGN.md 6/C07")
add("C09","exploration",
    "Runtime monitoring of positions: every delivered start/end position and every position(o) answer in random histories of next / set_offset to scanned offsets / exhaustion / queries is compared with the true line and byte column computed from the input.",
    "Byte columns (documented); offsets on character boundaries not beyond the scanned prefix; both conventions accepted directly after a newline as the statement allows.",
    "oracle over recorded call histories (true positions recomputed from the input)", "DESIGN.md 6/C09")
add("C10","exploration",
    "Metamorphic runtime monitoring: after any with_offset/set_offset/advance_to in random histories, every next() is compared with the first token of a fresh uncached scanner's fresh iterator over the suffix of the input in the model's mode.",
    "The baseline path (fresh scanner, fresh iterator, offset 0) is the reference; its tokenization is judged by C01/C04/C05.",
    "metamorphic oracle (suffix scan) over recorded call histories", "DESIGN.md 6/C10")
add("C11","exploration",
    "Runtime monitoring of peek_n over recorded call logs: twin execution (same history without peeks must give identical outputs) and prophecy/classification (each peek result must equal what the following next() calls yield on a twin iterator, with the right PeekResult variant).",
    "Uses the real next() as reference, so it needs no tokenization oracle; at exactly n matches with a switch both variants are accepted.",
    "twin-execution and prophecy checkers over recorded call logs", "DESIGN.md 6/C11")
add("C12","exploration",
    "Runtime monitoring of isolation: random interleavings of operations on 2-5 iterators of one Scanner (or of two scanners sharing a cached compilation), early drops and Scanner::set_mode; the projection onto each iterator must equal its solo replay on a fresh uncached scanner.",
    "Solo replay on the baseline path is the reference.",
    "solo-replay oracle over interleaved multi-iterator histories", "DESIGN.md 6/C12")
add("C02","translation_validation",
    "Per program exact, over programs sampled: every automaton the real compiler produced for a program (hook dump of a real build) is validated against the program's patterns for ALL strings by exploring the product with a Brzozowski-derivative reference automaton over the alphabet partition (atoms) induced by the compiled class predicates observed on all 1,112,064 scalar values and the IR's classes. Programs: generated, systematic small terms, repository corpora.",
    "Trusted: the reference side (IR class evaluator, derivative automaton, cross-checked with the denotational matcher in the self-test), regex-syntax for converting corpus patterns, hook H1 reporting the automaton faithfully (C18 cross-checks it against the DOT export). Named classes calibrated on the scanner (C08). Budget 300000 product states per automaton; exceeding it is inconclusive, never held.",
    "translation validation of recorded artefacts of real builds (offline checker over hook dumps), per-program exact product exploration", "DESIGN.md 4.4, 6/C02")
add("C03","translation_validation",
    "Every (before, after) automaton pair recorded from the real minimizer during real builds is checked for equivalence for all strings by on-the-fly determinisation of both over the class ids (a difference there is re-checked over characters with the class predicates before it counts), plus start-state preservation and |after| <= |before|.",
    "Trusted: hook H2 records the automaton handed to and returned by Minimizer::minimize; the pair checker. Symbol-level equality is sufficient for character-level equality.",
    "offline equivalence checker over recorded (input, output) pairs of the minimizer", "DESIGN.md 4.4, 6/C03")
add("C15","exploration",
    "Runtime monitoring of build totality and rejection: random token soup over the regex meta-alphabet built in worker subprocesses (abort/stack overflow observed and attributed), supported patterns with one documented-unsupported construct planted at a random depth/position (must be rejected by build and build_uncached), and supported-only patterns (must build).",
    "The generator knows the class of every string it plants; regex-syntax decides what a syntax error is; repetition counts bounded (product <= 4096).",
    "oracle by construction over generated build requests, subprocess sharding for abort detection", "DESIGN.md 6/C15")
add("C16","exploration",
    "Runtime monitoring of serialization: equality after to_string/from_str for hostile mode lists and for Span/Match/Position/MatchExt values, README layout written by an independent writer accepted and equal, behavioural twin (token streams and compiled automata of scanners built from x and from its round trip).",
    "serde_json is trusted as JSON implementation; the independent README-layout writer of the harness.",
    "round-trip equality + behavioural twin monitor", "DESIGN.md 6/C16")
add("C08","exploration",
    "Runtime monitoring of character classes with exhaustive inputs per expression: a scanner built from the single pattern is run over the string of all 1,112,064 scalar values and the matched set is compared bit for bit with the set algebra of the class's items; generated classes to nesting depth 3, single literals, the fixed ASCII statements, complements, corpus classes.",
    "Named items are calibrated (their set is whatever the scanner built from that item alone accepts); the reference set algebra of the harness; expressions are sampled, characters are exhaustive.",
    "reference-model monitor, exhaustive over scalar values per generated class expression", "DESIGN.md 6/C08")
add("C13","exploration",
    "Runtime monitoring of the cache: build sequences over families of near-identical and failing configurations in single-threaded worker processes; every build() result is compared with build_uncached() (Ok/Err, mode, names, token streams, compiled automata incl. language equivalence); hook H3 shows the hits and misses actually taken.",
    "build_uncached() is the reference; its compilation is judged by C01-C05; process-global cache state is isolated per worker process.",
    "uncached-twin oracle over build histories + cache event log", "DESIGN.md 6/C13")
add("C14","exploration",
    "Runtime monitoring under concurrency: barrier-started rounds of 2-16 threads doing cached/private/failing builds and scans on a shared Scanner with injected yields and sleeps, every result compared with a sequentially computed table; lock-order interleavings counted from the cache event log; logical deadlock watchdog; compile-time Send+Sync probe; thorough adds ThreadSanitizer and Miri (many seeds) runs.",
    "Schedules are sampled by stress, TSan and Miri seeds, not enumerated; Send+Sync is a build-time probe (the statement's own observation point).",
    "stress workload with sequential-oracle comparison, race detector (TSan), UB/race interpreter (Miri), compile-time probe", "DESIGN.md 6/C14")
add("C17","exploration",
    "Runtime monitoring at the 2^16 boundary: a mode of 8300 distinct keywords (66401 states, more than 2^16 partition groups) is really built (about 2 minutes) and every keyword, near-keyword and concatenation probe is compared with the trivially computable longest-match result; the minimizer's (before, after) pair is checked for equivalence; thorough adds three more crossing shapes and a{66000}b.",
    "A handful of configurations at and beyond the boundary (fixed price of a quadratic builder); the hook reports the state counts actually reached.",
    "reference-model monitor on real large builds + minimizer pair checker", "DESIGN.md 6/C17")
add("C18","exploration",
    "Runtime monitoring of the DOT export: every file written for generated configurations is parsed by a strict DOT parser and compared with the hook's dump of the same scanner (files, nodes, accepting labels, edge multiset with class ids, lookahead clusters); fault injection for unwritable targets (missing, regular file, over-long name, non-UTF-8 names, /sys, chmod 0555 as uid 65534) must give Err, never a panic.",
    "Hook H1 is the reference for the compiled automaton (validated against the patterns by C02); the harness's DOT parser implements Graphviz's quoted-string lexing.",
    "structural comparison of written artefacts with hooked state + fault injection", "DESIGN.md 6/C18")
manifest = {
 "version": 1,
 "setup_cmd": "./check setup",
 "hooks": {
   "guard": "cargo feature `verif_hooks` of the scnr crate (off by default)",
   "enable": "the harness crate /verif/harness depends on scnr = { path = \"/repo/scnr\" } and enables scnr/verif_hooks through its default feature `hooks`; every ./check invocation rebuilds it from /repo's working tree",
   "baseline_off_cmd": "cd /repo && cargo test --workspace --no-fail-fast --offline",
   "source_commits": hook_commits(),
   "add_only": True,
 },
 "engines": [{"name": "vharness", "path": "/verif/harness", "serves_properties": sorted(C.keys()), "kind_free_text": "Rust harness: workload generators, reference-model / invariant / history monitors, evidence and replay writers; driver ./check"}],
 "checks": [C[k] for k in sorted(C.keys())],
 "not_applicable": [{"property_id": i, "reason": "check under construction in this session; not yet claimed"} for i in ALL if i not in C],
 "notes": "Verdicts are three-valued: exit 0 held on what was observed, exit 1 + VIOLATION line, exit 2 + INCONCLUSIVE line (build failure, floors of trigger events not reached). Known findings: /verif/known_findings.json (all fixed at present). Pre-fix witnesses of the repaired defects: /verif/findings/.",
}
json.dump(manifest, open('/verif/MANIFEST.json','w'), indent=1)
print("checks:", sorted(C.keys()))
