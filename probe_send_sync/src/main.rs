//! Compile-time probe of C14: `Scanner: Send + Sync`. Its only content is the bound below, so a
//! build failure that names Send/Sync (E0277) is the refutation of that half of the statement.
fn is_send_and_sync<T: Send + Sync>() {}

fn main() {
    is_send_and_sync::<scnr::Scanner>();
    println!("scnr::Scanner: Send + Sync");
}
