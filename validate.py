#!/opt/veriftools/pyvenv/bin/python
"""Validates MANIFEST.json and every evidence file against the given schemas."""
import json, sys, glob, jsonschema
ok = True
try:
    jsonschema.validate(json.load(open('/verif/MANIFEST.json')), json.load(open('/root/.vp/MANIFEST.schema.json')))
    print("MANIFEST.json valid")
except Exception as e:
    ok = False; print("MANIFEST.json INVALID:", str(e)[:300])
es = json.load(open('/root/.vp/EVIDENCE.schema.json'))
for f in sorted(glob.glob('/verif/evidence/*.json')):
    try:
        jsonschema.validate(json.load(open(f)), es); print(f, "valid")
    except Exception as e:
        ok = False; print(f, "INVALID:", str(e)[:300])
sys.exit(0 if ok else 1)
