//! Scanner configurations as data (serializable, replayable) and their translation to scnr types.
use crate::ir::Re;
use crate::refsem::RefPattern;
use serde::{Deserialize, Serialize};

#[derive(Clone, Debug, Serialize, Deserialize, PartialEq, Eq, Hash)]
pub struct ModeCfg {
    pub name: String,
    pub pats: Vec<RefPattern>,
    /// (token type, target mode), sorted by token type, distinct token types
    pub trans: Vec<(usize, usize)>,
}

#[derive(Clone, Debug, Serialize, Deserialize, PartialEq, Eq, Hash)]
pub struct ScannerCfg {
    pub modes: Vec<ModeCfg>,
}

pub fn pattern_of(p: &RefPattern) -> scnr::Pattern {
    let pat = scnr::Pattern::new(p.re.to_syntax(), p.tt);
    match &p.la {
        None => pat,
        Some((pos, la)) => pat.with_lookahead(scnr::Lookahead::new(*pos, la.to_syntax())),
    }
}

impl ModeCfg {
    pub fn to_mode(&self) -> scnr::ScannerMode {
        scnr::ScannerMode::new(
            &self.name,
            self.pats.iter().map(pattern_of).collect::<Vec<_>>(),
            self.trans.clone(),
        )
    }
    pub fn has_lookahead(&self) -> bool {
        self.pats.iter().any(|p| p.la.is_some())
    }
    pub fn single(pats: Vec<RefPattern>) -> ModeCfg {
        ModeCfg {
            name: "INITIAL".to_string(),
            pats,
            trans: vec![],
        }
    }
}

impl ScannerCfg {
    pub fn single(pats: Vec<RefPattern>) -> ScannerCfg {
        ScannerCfg {
            modes: vec![ModeCfg::single(pats)],
        }
    }
    pub fn to_modes(&self) -> Vec<scnr::ScannerMode> {
        self.modes.iter().map(|m| m.to_mode()).collect()
    }
    /// A number that depends on the configuration only; it selects which of the equivalent public
    /// ways of handing the modes to the library a build uses (so that all of them are exercised).
    fn api_path(&self) -> usize {
        self.modes.iter().map(|m| m.name.len() + 3 * m.pats.len() + 5 * m.trans.len() + m.pats.iter().map(|p| p.tt % 7).sum::<usize>()).sum::<usize>() % 4
    }
    pub fn build_uncached(&self) -> Result<scnr::Scanner, String> {
        let modes = self.to_modes();
        match self.api_path() {
            2 => {
                let mut b = scnr::ScannerBuilder::new();
                for m in modes {
                    b = b.add_scanner_mode(m);
                }
                b.build_uncached().map_err(|e| e.to_string())
            }
            3 => scnr::Scanner::try_from(modes).map_err(|e| e.to_string()),
            _ => scnr::ScannerBuilder::new().add_scanner_modes(&modes).build_uncached().map_err(|e| e.to_string()),
        }
    }
    pub fn build_cached(&self) -> Result<scnr::Scanner, String> {
        let modes = self.to_modes();
        match self.api_path() {
            3 if !modes.is_empty() => scnr::ScannerBuilder::new()
                .add_scanner_mode(modes[0].clone())
                .add_scanner_modes(&modes[1..])
                .build()
                .map_err(|e| e.to_string()),
            _ => scnr::ScannerBuilder::new().add_scanner_modes(&modes).build().map_err(|e| e.to_string()),
        }
    }
    /// Pattern texts for human readable samples.
    pub fn describe(&self) -> serde_json::Value {
        serde_json::json!(self
            .modes
            .iter()
            .map(|m| serde_json::json!({
                "name": m.name,
                "patterns": m.pats.iter().map(|p| {
                    let la = p.la.as_ref().map(|(pos, la)| format!("{}{}", if *pos {"(?=)"} else {"(?!)"}, la.to_syntax()));
                    serde_json::json!({"re": p.re.to_syntax(), "tt": p.tt, "la": la})
                }).collect::<Vec<_>>(),
                "transitions": m.trans,
            }))
            .collect::<Vec<_>>())
    }
    pub fn all_res(&self) -> Vec<&Re> {
        let mut v = vec![];
        for m in &self.modes {
            for p in &m.pats {
                v.push(&p.re);
                if let Some((_, la)) = &p.la {
                    v.push(la);
                }
            }
        }
        v
    }
}
