//! Exact language checker (DESIGN 4.4): alphabet partition into atoms over all Unicode scalar
//! values, Brzozowski-derivative reference automaton, product exploration against the automaton
//! the compiler actually produced (hook H1), and automaton-pair equivalence (hook H2).
#![cfg(feature = "hooks")]
use crate::ir::*;
use crate::refsem::*;
use scnr::verif_hooks::AutomatonDump;
use std::collections::{HashMap, VecDeque};
use std::sync::{Arc, Mutex, OnceLock};

// ------------------------------------------------------------------------------------------------
// Character sets of classes
// ------------------------------------------------------------------------------------------------

fn set_cache() -> &'static Mutex<HashMap<String, Arc<CharSet>>> {
    static C: OnceLock<Mutex<HashMap<String, Arc<CharSet>>>> = OnceLock::new();
    C.get_or_init(|| Mutex::new(HashMap::new()))
}

/// The set a registered class of a built scanner accepts, observed through the hook for every
/// scalar value. Cached by the class's source text and re-verified on a sample at each reuse (a
/// cache that could hide a changed predicate would make the monitor unsound).
pub fn impl_class_set(scanner: &scnr::Scanner, id: usize) -> Result<Arc<CharSet>, String> {
    let src = scanner
        .verif_class_source(id)
        .ok_or_else(|| format!("class id {} is not registered", id))?;
    let key = format!("impl:{}", src);
    if let Some(s) = set_cache().lock().unwrap().get(&key).cloned() {
        // re-verify: all ASCII plus a deterministic sample
        let mut x: u32 = 0x9E37 ^ (id as u32).wrapping_mul(2654435761);
        let mut ok = true;
        for cp in 0..128u32 {
            let c = char::from_u32(cp).unwrap();
            if scanner.verif_class_matches(id, c) != Some(s.has(c)) {
                ok = false;
            }
        }
        for _ in 0..256 {
            x ^= x << 13;
            x ^= x >> 17;
            x ^= x << 5;
            if let Some(c) = char::from_u32(x % 0x110000) {
                if scanner.verif_class_matches(id, c) != Some(s.has(c)) {
                    ok = false;
                }
            }
        }
        if ok {
            return Ok(s);
        }
        // predicate changed for the same source text: recompute, do not trust the cache
    }
    let mut set = CharSet::empty();
    for cp in 0..NSCALARS as u32 {
        if let Some(c) = char::from_u32(cp) {
            match scanner.verif_class_matches(id, c) {
                Some(true) => set.set(c),
                Some(false) => {}
                None => return Err(format!("class id {} is not registered", id)),
            }
        }
    }
    let set = Arc::new(set);
    cache_insert(key, set.clone());
    Ok(set)
}

/// The cache is bounded (each entry is 136 KiB): when full it is emptied; entries are recomputed
/// on demand.
fn cache_insert(key: String, set: Arc<CharSet>) {
    const MAX_ENTRIES: usize = 3000;
    let mut c = set_cache().lock().unwrap();
    if c.len() >= MAX_ENTRIES {
        c.clear();
    }
    c.insert(key, set);
}

/// The set an IR leaf denotes (reference side), cached by its syntax.
pub fn leaf_set(leaf: &Re) -> Arc<CharSet> {
    let key = format!("ref:{}", leaf.to_syntax());
    if let Some(s) = set_cache().lock().unwrap().get(&key).cloned() {
        return s;
    }
    let set = set_of_leaf(leaf);
    let set = Arc::new(set);
    cache_insert(key, set.clone());
    set
}

// ------------------------------------------------------------------------------------------------
// Atoms
// ------------------------------------------------------------------------------------------------

pub struct Atoms {
    /// one representative character per atom
    pub reps: Vec<char>,
    /// number of scalar values per atom
    pub sizes: Vec<usize>,
    /// membership[set index][atom]
    pub membership: Vec<Vec<bool>>,
}

/// The partition of all scalar values induced by the given sets: two characters are in the same
/// atom iff they are members of exactly the same sets. Works word-wise: a 64-character word in
/// which every set is uniformly in or out is handled with one signature lookup.
pub fn atoms_of(sets: &[Arc<CharSet>]) -> Atoms {
    static FULL: OnceLock<CharSet> = OnceLock::new();
    let full = FULL.get_or_init(CharSet::full);
    let k = sets.len();
    let sig_words = (k + 63) / 64;
    let mut index: HashMap<Vec<u64>, usize> = HashMap::new();
    let mut reps: Vec<char> = Vec::new();
    let mut sizes: Vec<usize> = Vec::new();
    let mut sigs: Vec<Vec<u64>> = Vec::new();
    let mut sig = vec![0u64; sig_words.max(1)];
    let nwords = full.words.len();
    for w in 0..nwords {
        let fw = full.words[w];
        if fw == 0 {
            continue;
        }
        let mut uniform = true;
        for x in sig.iter_mut() {
            *x = 0;
        }
        for (i, s) in sets.iter().enumerate() {
            let x = s.words[w] & fw;
            if x == fw {
                sig[i >> 6] |= 1u64 << (i & 63);
            } else if x != 0 {
                uniform = false;
                break;
            }
        }
        if uniform {
            let n = fw.count_ones() as usize;
            if let Some(a) = index.get(&sig) {
                sizes[*a] += n;
            } else {
                let a = reps.len();
                index.insert(sig.clone(), a);
                reps.push(char::from_u32((w * 64) as u32 + fw.trailing_zeros()).unwrap());
                sizes.push(n);
                sigs.push(sig.clone());
            }
        } else {
            let mut bits = fw;
            while bits != 0 {
                let b = bits.trailing_zeros();
                bits &= bits - 1;
                for x in sig.iter_mut() {
                    *x = 0;
                }
                for (i, s) in sets.iter().enumerate() {
                    if s.words[w] & (1u64 << b) != 0 {
                        sig[i >> 6] |= 1u64 << (i & 63);
                    }
                }
                if let Some(a) = index.get(&sig) {
                    sizes[*a] += 1;
                } else {
                    let a = reps.len();
                    index.insert(sig.clone(), a);
                    reps.push(char::from_u32((w * 64) as u32 + b).unwrap());
                    sizes.push(1);
                    sigs.push(sig.clone());
                }
            }
        }
    }
    let membership = (0..k)
        .map(|i| sigs.iter().map(|sg| sg[i >> 6] & (1u64 << (i & 63)) != 0).collect())
        .collect();
    Atoms {
        reps,
        sizes,
        membership,
    }
}

// ------------------------------------------------------------------------------------------------
// Derivatives
// ------------------------------------------------------------------------------------------------

pub type Id = u32;

#[derive(Clone, Debug, PartialEq, Eq, Hash)]
enum Node {
    Null,
    Eps,
    Leaf(u32),
    Cat(Id, Id),
    Alt(Vec<Id>),
    Star(Id),
    /// Rep(x, min, max) with max = u32::MAX meaning unbounded
    Rep(Id, u32, u32),
}

pub struct Deriv {
    nodes: Vec<Node>,
    index: HashMap<Node, Id>,
    nullable: Vec<bool>,
    memo: HashMap<(Id, u32), Id>,
    /// leaf_has[leaf][atom]
    pub leaf_has: Vec<Vec<bool>>,
}

pub const NULL: Id = 0;
pub const EPS: Id = 1;
const UNBOUNDED: u32 = u32::MAX;

impl Deriv {
    pub fn new() -> Self {
        let mut d = Deriv {
            nodes: vec![],
            index: HashMap::new(),
            nullable: vec![],
            memo: HashMap::new(),
            leaf_has: vec![],
        };
        d.intern(Node::Null);
        d.intern(Node::Eps);
        d
    }

    pub fn node_count(&self) -> usize {
        self.nodes.len()
    }

    fn intern(&mut self, n: Node) -> Id {
        if let Some(id) = self.index.get(&n) {
            return *id;
        }
        let nullable = match &n {
            Node::Null | Node::Leaf(_) => false,
            Node::Eps | Node::Star(_) => true,
            Node::Cat(a, b) => self.nullable[*a as usize] && self.nullable[*b as usize],
            Node::Alt(xs) => xs.iter().any(|x| self.nullable[*x as usize]),
            Node::Rep(x, m, _) => *m == 0 || self.nullable[*x as usize],
        };
        let id = self.nodes.len() as Id;
        self.nodes.push(n.clone());
        self.index.insert(n, id);
        self.nullable.push(nullable);
        id
    }

    pub fn is_nullable(&self, id: Id) -> bool {
        self.nullable[id as usize]
    }

    pub fn leaf(&mut self, k: u32) -> Id {
        self.intern(Node::Leaf(k))
    }

    pub fn cat(&mut self, a: Id, b: Id) -> Id {
        if a == NULL || b == NULL {
            return NULL;
        }
        if a == EPS {
            return b;
        }
        if b == EPS {
            return a;
        }
        // right-associate
        if let Node::Cat(x, y) = self.nodes[a as usize].clone() {
            let yb = self.cat(y, b);
            return self.cat(x, yb);
        }
        self.intern(Node::Cat(a, b))
    }

    pub fn alt(&mut self, xs: Vec<Id>) -> Id {
        let mut flat: Vec<Id> = Vec::new();
        for x in xs {
            match &self.nodes[x as usize] {
                Node::Null => {}
                Node::Alt(ys) => flat.extend(ys.iter().cloned()),
                _ => flat.push(x),
            }
        }
        flat.sort_unstable();
        flat.dedup();
        match flat.len() {
            0 => NULL,
            1 => flat[0],
            _ => self.intern(Node::Alt(flat)),
        }
    }

    pub fn star(&mut self, x: Id) -> Id {
        if x == NULL || x == EPS {
            return EPS;
        }
        if let Node::Star(_) = self.nodes[x as usize] {
            return x;
        }
        self.intern(Node::Star(x))
    }

    pub fn rep(&mut self, x: Id, m: u32, max: u32) -> Id {
        if max == 0 {
            return EPS;
        }
        if x == EPS {
            return EPS;
        }
        if x == NULL {
            return if m == 0 { EPS } else { NULL };
        }
        if m == 0 && max == UNBOUNDED {
            return self.star(x);
        }
        if m == 1 && max == 1 {
            return x;
        }
        self.intern(Node::Rep(x, m, max))
    }

    /// Translates an IR term; `leaf_of` maps a leaf to its index in `leaf_has`.
    pub fn from_re(&mut self, re: &Re, leaf_of: &mut dyn FnMut(&Re) -> u32) -> Id {
        match re {
            Re::Empty => EPS,
            Re::Lit(..) | Re::Dot | Re::Class(_) | Re::Perl(..) | Re::Uni(..) => {
                let k = leaf_of(re);
                self.leaf(k)
            }
            Re::Cat(xs) => {
                let ids: Vec<Id> = xs.iter().map(|x| self.from_re(x, leaf_of)).collect();
                let mut acc = EPS;
                for id in ids.into_iter().rev() {
                    acc = self.cat(id, acc);
                }
                acc
            }
            Re::Alt(xs) => {
                if xs.is_empty() {
                    return EPS;
                }
                let ids: Vec<Id> = xs.iter().map(|x| self.from_re(x, leaf_of)).collect();
                self.alt(ids)
            }
            Re::Star(x) => {
                let i = self.from_re(x, leaf_of);
                self.star(i)
            }
            Re::Plus(x) => {
                let i = self.from_re(x, leaf_of);
                let s = self.star(i);
                self.cat(i, s)
            }
            Re::Opt(x) => {
                let i = self.from_re(x, leaf_of);
                self.alt(vec![EPS, i])
            }
            Re::Rep(x, m, max) => {
                let i = self.from_re(x, leaf_of);
                let mx = match max {
                    RepMax::Exactly => *m,
                    RepMax::AtLeast => UNBOUNDED,
                    RepMax::Bounded(n) => *n,
                };
                self.rep(i, *m, mx)
            }
            Re::Group(_, x) => self.from_re(x, leaf_of),
            Re::Raw(_) => panic!("HARNESS: raw fragment in reference automaton"),
        }
    }

    pub fn deriv(&mut self, id: Id, atom: u32) -> Id {
        if id == NULL || id == EPS {
            return NULL;
        }
        if let Some(r) = self.memo.get(&(id, atom)) {
            return *r;
        }
        let node = self.nodes[id as usize].clone();
        let r = match node {
            Node::Null | Node::Eps => NULL,
            Node::Leaf(k) => {
                if self.leaf_has[k as usize][atom as usize] {
                    EPS
                } else {
                    NULL
                }
            }
            Node::Cat(a, b) => {
                let da = self.deriv(a, atom);
                let left = self.cat(da, b);
                if self.is_nullable(a) {
                    let db = self.deriv(b, atom);
                    self.alt(vec![left, db])
                } else {
                    left
                }
            }
            Node::Alt(xs) => {
                let ds: Vec<Id> = xs.iter().map(|x| self.deriv(*x, atom)).collect();
                self.alt(ds)
            }
            Node::Star(x) => {
                let dx = self.deriv(x, atom);
                self.cat(dx, id)
            }
            Node::Rep(x, m, max) => {
                let dx = self.deriv(x, atom);
                let rest = self.rep(
                    x,
                    m.saturating_sub(1),
                    if max == UNBOUNDED { UNBOUNDED } else { max - 1 },
                );
                self.cat(dx, rest)
            }
        };
        self.memo.insert((id, atom), r);
        r
    }

    /// Does the term match the sequence of atoms in full?
    pub fn matches(&mut self, mut id: Id, atoms: &[u32]) -> bool {
        for a in atoms {
            id = self.deriv(id, *a);
            if id == NULL {
                return false;
            }
        }
        self.is_nullable(id)
    }
}

impl Default for Deriv {
    fn default() -> Self {
        Self::new()
    }
}

// ------------------------------------------------------------------------------------------------
// Structural sanity of a dump
// ------------------------------------------------------------------------------------------------

pub fn check_structure(a: &AutomatonDump, class_count: usize, what: &str) -> Result<(), String> {
    if a.states.len() != a.accepting.len() {
        return Err(format!("{}: {} states but {} accepting flags", what, a.states.len(), a.accepting.len()));
    }
    if a.states.is_empty() {
        return Err(format!("{}: automaton without states", what));
    }
    if let Some(t) = a.accepting[0] {
        return Err(format!("{}: the start state is accepting (token type {}), i.e. the empty string is accepted", what, t));
    }
    for (s, trs) in a.states.iter().enumerate() {
        for (cc, t) in trs {
            if *cc as usize >= class_count {
                return Err(format!("{}: state {} has an edge with class id {} but only {} classes are registered", what, s, cc, class_count));
            }
            if *t as usize >= a.states.len() {
                return Err(format!("{}: state {} has an edge to state {} but there are only {} states", what, s, t, a.states.len()));
            }
        }
    }
    for (tt, _, la) in &a.lookaheads {
        check_structure(la, class_count, &format!("{} / lookahead of token type {}", what, tt))?;
    }
    Ok(())
}

// ------------------------------------------------------------------------------------------------
// Product exploration: compiled automaton vs patterns
// ------------------------------------------------------------------------------------------------

#[derive(Debug, Default, Clone)]
pub struct ExploreStats {
    pub product_states: usize,
    pub transitions: usize,
    pub atoms: usize,
    pub deriv_nodes: usize,
}

pub enum Explore {
    Equal(ExploreStats),
    Different { witness: String, impl_accepts: Vec<u64>, ref_accepts: Vec<u64>, stats: ExploreStats },
    Budget(ExploreStats),
}

fn accepted_types(a: &AutomatonDump, set: &[u32]) -> Vec<u64> {
    let mut v: Vec<u64> = set.iter().filter_map(|s| a.accepting[*s as usize]).collect();
    v.sort_unstable();
    v.dedup();
    v
}

fn step(a: &AutomatonDump, set: &[u32], class_has: &[Vec<bool>], atom: usize) -> Vec<u32> {
    let mut out: Vec<u32> = Vec::new();
    for s in set {
        for (cc, t) in &a.states[*s as usize] {
            if class_has[*cc as usize][atom] {
                out.push(*t);
            }
        }
    }
    out.sort_unstable();
    out.dedup();
    out
}

/// BFS over pairs (set of automaton states, tuple of derivatives). `pats` are (term, token type).
/// impl_class_has[class id][atom]; the derivative context must already hold leaf_has.
pub fn explore_vs_patterns(
    a: &AutomatonDump,
    impl_class_has: &[Vec<bool>],
    d: &mut Deriv,
    pats: &[(Id, u64)],
    atoms: &Atoms,
    budget: usize,
) -> Explore {
    let n_atoms = atoms.reps.len();
    type Key = (Vec<u32>, Vec<Id>);
    let mut seen: HashMap<Key, usize> = HashMap::new();
    let mut parent: Vec<(usize, u32)> = Vec::new(); // (parent index, atom)
    let mut queue: VecDeque<Key> = VecDeque::new();
    let start: Key = (vec![0], pats.iter().map(|p| p.0).collect());
    seen.insert(start.clone(), 0);
    parent.push((usize::MAX, 0));
    queue.push_back(start);
    let mut stats = ExploreStats { atoms: n_atoms, ..Default::default() };
    while let Some(key) = queue.pop_front() {
        let me = seen[&key];
        for atom in 0..n_atoms {
            let s2 = step(a, &key.0, impl_class_has, atom);
            let d2: Vec<Id> = key.1.iter().map(|x| d.deriv(*x, atom as u32)).collect();
            stats.transitions += 1;
            let impl_acc = accepted_types(a, &s2);
            let mut ref_acc: Vec<u64> = d2
                .iter()
                .zip(pats.iter())
                .filter(|(x, _)| d.is_nullable(**x))
                .map(|(_, p)| p.1)
                .collect();
            ref_acc.sort_unstable();
            ref_acc.dedup();
            if impl_acc != ref_acc {
                // witness
                let mut path = vec![atom as u32];
                let mut cur = me;
                while parent[cur].0 != usize::MAX {
                    path.push(parent[cur].1);
                    cur = parent[cur].0;
                }
                path.reverse();
                let witness: String = path.iter().map(|a| atoms.reps[*a as usize]).collect();
                stats.product_states = seen.len();
                stats.deriv_nodes = d.node_count();
                return Explore::Different { witness, impl_accepts: impl_acc, ref_accepts: ref_acc, stats };
            }
            if s2.is_empty() && d2.iter().all(|x| *x == NULL) {
                continue;
            }
            let k2: Key = (s2, d2);
            if !seen.contains_key(&k2) {
                if seen.len() >= budget {
                    stats.product_states = seen.len();
                    stats.deriv_nodes = d.node_count();
                    return Explore::Budget(stats);
                }
                let idx = seen.len();
                seen.insert(k2.clone(), idx);
                parent.push((me, atom as u32));
                queue.push_back(k2);
            }
        }
    }
    stats.product_states = seen.len();
    stats.deriv_nodes = d.node_count();
    Explore::Equal(stats)
}

// ------------------------------------------------------------------------------------------------
// Automaton-pair equivalence
// ------------------------------------------------------------------------------------------------

pub enum PairResult {
    Equivalent { product_states: usize },
    Different { path: Vec<u32>, acc_a: Vec<u64>, acc_b: Vec<u64> },
    Budget,
}

/// BFS over pairs of state sets. a_has[class][letter], b_has[class][letter].
pub fn pair_equiv(
    a: &AutomatonDump,
    a_has: &[Vec<bool>],
    b: &AutomatonDump,
    b_has: &[Vec<bool>],
    n_letters: usize,
    budget: usize,
) -> PairResult {
    type Key = (Vec<u32>, Vec<u32>);
    let mut seen: HashMap<Key, usize> = HashMap::new();
    let mut parent: Vec<(usize, u32)> = vec![(usize::MAX, 0)];
    let mut queue: VecDeque<Key> = VecDeque::new();
    let start: Key = (vec![0], vec![0]);
    {
        let aa = accepted_types(a, &start.0);
        let ab = accepted_types(b, &start.1);
        if aa != ab {
            return PairResult::Different { path: vec![], acc_a: aa, acc_b: ab };
        }
    }
    seen.insert(start.clone(), 0);
    queue.push_back(start);
    while let Some(key) = queue.pop_front() {
        let me = seen[&key];
        for l in 0..n_letters {
            let sa = step(a, &key.0, a_has, l);
            let sb = step(b, &key.1, b_has, l);
            if sa.is_empty() && sb.is_empty() {
                continue;
            }
            let aa = accepted_types(a, &sa);
            let ab = accepted_types(b, &sb);
            if aa != ab {
                let mut path = vec![l as u32];
                let mut cur = me;
                while parent[cur].0 != usize::MAX {
                    path.push(parent[cur].1);
                    cur = parent[cur].0;
                }
                path.reverse();
                return PairResult::Different { path, acc_a: aa, acc_b: ab };
            }
            let k2: Key = (sa, sb);
            if !seen.contains_key(&k2) {
                if seen.len() >= budget {
                    return PairResult::Budget;
                }
                let idx = seen.len();
                seen.insert(k2.clone(), idx);
                parent.push((me, l as u32));
                queue.push_back(k2);
            }
        }
    }
    PairResult::Equivalent { product_states: seen.len() }
}

/// Identity membership: letters are the class ids themselves (symbol level).
pub fn symbolic_membership(n_classes: usize) -> Vec<Vec<bool>> {
    (0..n_classes)
        .map(|c| (0..n_classes).map(|l| l == c).collect())
        .collect()
}

pub fn max_class_id(a: &AutomatonDump) -> usize {
    let mut m = 0usize;
    for trs in &a.states {
        for (cc, _) in trs {
            m = m.max(*cc as usize + 1);
        }
    }
    for (_, _, la) in &a.lookaheads {
        m = m.max(max_class_id(la));
    }
    m
}

// ------------------------------------------------------------------------------------------------
// Whole-scanner comparison (C13, C16)
// ------------------------------------------------------------------------------------------------

pub fn class_sets_of(scanner: &scnr::Scanner) -> Result<Vec<Arc<CharSet>>, String> {
    (0..scanner.verif_class_count())
        .map(|i| impl_class_set(scanner, i))
        .collect()
}

fn automata_equiv_atoms(
    a: &AutomatonDump,
    a_has: &[Vec<bool>],
    b: &AutomatonDump,
    b_has: &[Vec<bool>],
    atoms: &Atoms,
    what: &str,
) -> Result<(), String> {
    match pair_equiv(a, a_has, b, b_has, atoms.reps.len(), 300_000) {
        PairResult::Equivalent { .. } => {}
        PairResult::Budget => return Err(format!("{}: comparison budget exhausted", what)),
        PairResult::Different { path, acc_a, acc_b } => {
            let w: String = path.iter().map(|x| atoms.reps[*x as usize]).collect();
            return Err(format!(
                "{}: on the string {:?} one automaton accepts token types {:?}, the other {:?}",
                what, w, acc_a, acc_b
            ));
        }
    }
    let la: Vec<(u64, bool)> = a.lookaheads.iter().map(|l| (l.0, l.1)).collect();
    let lb: Vec<(u64, bool)> = b.lookaheads.iter().map(|l| (l.0, l.1)).collect();
    if la != lb {
        return Err(format!("{}: lookaheads differ: {:?} vs {:?}", what, la, lb));
    }
    for (x, y) in a.lookaheads.iter().zip(b.lookaheads.iter()) {
        automata_equiv_atoms(&x.2, a_has, &y.2, b_has, atoms, &format!("{} / lookahead of token type {}", what, x.0))?;
    }
    Ok(())
}

/// Two scanners recognise the same thing: mode names, transitions, priority orders and, at the
/// level of all strings of scalar values, their automata and lookahead automata.
pub fn scanners_equivalent(x: &scnr::Scanner, y: &scnr::Scanner) -> Result<(), String> {
    let dx = x.verif_dump();
    let dy = y.verif_dump();
    if dx.len() != dy.len() {
        return Err(format!("{} modes vs {} modes", dx.len(), dy.len()));
    }
    let sx = class_sets_of(x)?;
    let sy = class_sets_of(y)?;
    let mut all = sx.clone();
    all.extend(sy.iter().cloned());
    let atoms = atoms_of(&all);
    let x_has: Vec<Vec<bool>> = atoms.membership[..sx.len()].to_vec();
    let y_has: Vec<Vec<bool>> = atoms.membership[sx.len()..].to_vec();
    for (mx, my) in dx.iter().zip(dy.iter()) {
        if mx.name != my.name {
            return Err(format!("mode names differ: {:?} vs {:?}", mx.name, my.name));
        }
        if mx.transitions != my.transitions {
            return Err(format!("transitions of mode {:?} differ: {:?} vs {:?}", mx.name, mx.transitions, my.transitions));
        }
        if mx.automaton.terminal_ids != my.automaton.terminal_ids {
            return Err(format!(
                "priority orders of mode {:?} differ: {:?} vs {:?}",
                mx.name, mx.automaton.terminal_ids, my.automaton.terminal_ids
            ));
        }
        check_structure(&mx.automaton, sx.len(), &format!("mode {:?}", mx.name))?;
        check_structure(&my.automaton, sy.len(), &format!("mode {:?}", my.name))?;
        automata_equiv_atoms(&mx.automaton, &x_has, &my.automaton, &y_has, &atoms, &format!("mode {:?}", mx.name))?;
    }
    Ok(())
}
