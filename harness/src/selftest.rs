//! Oracle self-test (DESIGN 10.1): the two independent implementations of regex semantics
//! (denotational matcher, derivative automaton) and the two class evaluators (per character, set
//! algebra) are cross-checked, so that a bug in an oracle shows up as a disagreement between
//! oracles before it can show up as a false alarm.
#![cfg(feature = "hooks")]
use crate::gen::*;
use crate::ir::*;
use crate::lang::*;
use crate::refsem::*;
use crate::rng::Rng;
use std::collections::HashMap;
use std::sync::Arc;

fn collect_leaves<'a>(re: &'a Re, out: &mut Vec<&'a Re>) {
    match re {
        Re::Lit(..) | Re::Dot | Re::Class(_) | Re::Perl(..) | Re::Uni(..) => out.push(re),
        Re::Cat(xs) | Re::Alt(xs) => xs.iter().for_each(|x| collect_leaves(x, out)),
        Re::Star(x) | Re::Plus(x) | Re::Opt(x) | Re::Rep(x, _, _) | Re::Group(_, x) => collect_leaves(x, out),
        _ => {}
    }
}

pub fn run(n: u64, seed: u64) -> i32 {
    let mut disagreements = 0u64;
    let mut matched = 0u64;
    let p = GenParams::default();
    for i in 0..n {
        let mut rng = Rng::for_case(seed, 4242, i);
        let re = gen_re(&mut rng, &p);
        let mut leaves = Vec::new();
        collect_leaves(&re, &mut leaves);
        let mut index: HashMap<String, u32> = HashMap::new();
        let mut sets: Vec<Arc<CharSet>> = Vec::new();
        for l in &leaves {
            let k = l.to_syntax();
            if !index.contains_key(&k) {
                index.insert(k, sets.len() as u32);
                sets.push(leaf_set(l));
            }
        }
        let atoms = atoms_of(&sets);
        let mut d = Deriv::new();
        d.leaf_has = atoms.membership.clone();
        let id = d.from_re(&re, &mut |l: &Re| index[&l.to_syntax()]);
        // atom of a character
        let atom_of = |c: char| -> u32 {
            for a in 0..atoms.reps.len() {
                if sets.iter().enumerate().all(|(si, s)| s.has(c) == atoms.membership[si][a]) {
                    return a as u32;
                }
            }
            panic!("character without atom");
        };
        for _ in 0..6 {
            let s = gen_input(&mut rng, &[&re], &p.letters, 12);
            let chars: Vec<char> = s.chars().collect();
            let a = matches_full(&re, &chars);
            let seq: Vec<u32> = chars.iter().map(|c| atom_of(*c)).collect();
            let b = d.matches(id, &seq);
            if a {
                matched += 1;
            }
            if a != b {
                disagreements += 1;
                println!("SELFTEST disagreement: {:?} on {:?}: denotational {} derivative {}", re.to_syntax(), s, a, b);
            }
        }
        // class evaluators
        for l in &leaves {
            if let Re::Class(c) = l {
                let set = set_of_class(c);
                for _ in 0..40 {
                    let ch = if rng.chance(1, 2) { *rng.pick(&p.letters) } else { char::from_u32(rng.below(0x110000) as u32).unwrap_or('a') };
                    if set.has(ch) != mem_class(c, ch) {
                        disagreements += 1;
                        println!("SELFTEST class disagreement: {:?} on U+{:04X}", c.to_syntax(), ch as u32);
                    }
                }
            }
        }
    }
    println!("selftest: {} terms, {} matching strings, {} disagreements", n, matched, disagreements);
    if disagreements == 0 {
        0
    } else {
        1
    }
}
