//! Scale streams: the oracles of C01, C09, C10 and C11 on inputs whose quantities cross the widths a
//! compact representation would use (token lengths, columns, line counts, offsets and peek counts
//! beyond 2^8 and 2^16). The small-input streams cannot reach these; the oracles are unchanged.
use crate::cfg::*;
use crate::hist::*;
use crate::ir::parse_to_ir;
use crate::monitor::*;
use crate::refsem::RefPattern;
use crate::rng::Rng;
use crate::wf::Tok;
use scnr::{MatchExtIterator, PositionProvider, ScannerModeSwitcher};
use serde_json::json;

/// Lengths around the widths a compact field could have, and in between.
fn boundary_len(rng: &mut Rng) -> usize {
    match rng.below(9) {
        0 => rng.range(250, 262),
        1 => rng.range(65_530, 65_542),
        2 => rng.range(131_068, 131_078),
        3 => rng.range(1, 40),
        4 => rng.range(300, 5_000),
        5 => rng.range(66_000, 140_000),
        6 => rng.range(32_760, 32_775),
        7 => rng.range(500, 600),
        _ => rng.range(1, 300),
    }
}

// ------------------------------------------------------------------------------------------------
// C01 stream 6: long tokens
// ------------------------------------------------------------------------------------------------

/// (pattern, kind of piece the pattern matches in full)
const LONG_POOL: [(&str, u8); 11] = [
    ("a+", 0),
    ("[bc]+d", 1),
    ("\"[^\"]*\"", 2),
    ("/\\*([^*]|\\*+[^*/])*\\*+/", 3),
    ("é+", 4),
    ("[€😀]+", 5),
    ("//[^\\n]*", 6),
    ("e(fg)*", 7),
    ("(h|hi)+j", 8),
    ("[k-m]{3,}", 9),
    (".+", 10),
];

fn long_piece(rng: &mut Rng, kind: u8, len: usize, out: &mut String) {
    match kind {
        0 => out.extend(std::iter::repeat('a').take(len)),
        1 => {
            for _ in 0..len {
                out.push(if rng.chance(1, 2) { 'b' } else { 'c' });
            }
            out.push('d');
        }
        2 => {
            out.push('"');
            let fill = ['x', 'a', ' ', '\n', 'é', '€', 'd', '/', '*'];
            for _ in 0..len {
                out.push(*rng.pick(&fill));
            }
            out.push('"');
        }
        3 => {
            out.push_str("/*");
            let fill = ['x', 'a', ' ', '\n', '*', 'é', '"'];
            let mut prev_star = false;
            for _ in 0..len {
                let mut c = *rng.pick(&fill);
                if prev_star && c == '/' {
                    c = 'x';
                }
                prev_star = c == '*';
                out.push(c);
            }
            out.push_str("*/");
        }
        4 => out.extend(std::iter::repeat('é').take(len)),
        5 => {
            for _ in 0..len {
                out.push(if rng.chance(1, 2) { '€' } else { '😀' });
            }
        }
        6 => {
            out.push_str("//");
            let fill = ['x', 'a', ' ', '/', 'é', '"', 'd'];
            for _ in 0..len {
                out.push(*rng.pick(&fill));
            }
            out.push('\n');
        }
        7 => {
            out.push('e');
            for _ in 0..len / 2 {
                out.push_str("fg");
            }
        }
        8 => {
            for _ in 0..len.div_ceil(2) {
                out.push_str(if rng.chance(1, 2) { "h" } else { "hi" });
            }
            out.push('j');
        }
        9 => {
            for _ in 0..len.max(3) {
                out.push(*rng.pick(&['k', 'l', 'm']));
            }
        }
        _ => {
            let fill = ['x', 'a', ' ', 'é', 'q', 'd', 'j'];
            for _ in 0..len.max(1) {
                out.push(*rng.pick(&fill));
            }
            out.push('\n');
        }
    }
}

#[cfg(feature = "hooks")]
pub fn c01_long_case(rng: &mut Rng, st: &mut Stats) -> CaseOutcome {
    // 1-4 patterns of the pool in random order (the order is the priority)
    let mut idx: Vec<usize> = (0..LONG_POOL.len()).collect();
    rng.shuffle(&mut idx);
    let n = rng.range(1, 4);
    idx.truncate(n);
    let by_index = rng.chance(1, 2);
    let pats: Vec<RefPattern> = idx
        .iter()
        .enumerate()
        .map(|(i, k)| RefPattern {
            re: parse_to_ir(LONG_POOL[*k].0).unwrap(),
            tt: if by_index { i } else { 70_000 + 13 * i },
            la: None,
        })
        .collect();
    let cfg = ScannerCfg::single(pats);
    // pieces of the chosen patterns only (every long run ends in a match: no quadratic rescans)
    let mut input = String::new();
    let pieces = rng.range(2, 7);
    let mut longest = 0usize;
    for _ in 0..pieces {
        let k = *rng.pick(&idx);
        let len = boundary_len(rng);
        longest = longest.max(len);
        long_piece(rng, LONG_POOL[k].1, len, &mut input);
        match rng.below(5) {
            0 => input.push(' '),
            1 => input.push('\n'),
            2 => input.push('z'),
            3 => input.push_str("zж\t"),
            _ => {}
        }
        if input.len() > 900_000 {
            break;
        }
    }
    let case = || json!({"kind": "scale", "patterns": cfg.describe(), "input_bytes": input.len()});
    let scanner = match if rng.chance(1, 3) { cfg.build_cached() } else { cfg.build_uncached() } {
        Ok(s) => s,
        Err(e) => return CaseOutcome::Violated(Violation::new(format!("build failed: {}", e), case())),
    };
    st.count("long_token_scans");
    st.add("long_token_input_bytes", input.len() as u64);
    if longest > 255 {
        st.count("scans_with_a_piece_longer_than_255_chars");
    }
    if longest > 65_535 {
        st.count("scans_with_a_piece_longer_than_65535_chars");
    }
    match sut(|| crate::reftok::check_corpus(&cfg, &scanner, &input)) {
        Ok(Ok((tokens, _))) => {
            st.add("long_stream_tokens_compared", tokens as u64);
            st.nontrivial(hash_of(&(&cfg, &input)));
            st.sample(json!({"patterns": cfg.describe(), "input_bytes": input.len(), "tokens": tokens, "longest_piece_chars": longest}));
            CaseOutcome::Ok
        }
        Ok(Err(e)) => CaseOutcome::Violated(Violation::new(e, case())),
        Err(p) => CaseOutcome::Violated(Violation::new(format!("panic: {}", p), case())),
    }
}

// ------------------------------------------------------------------------------------------------
// C09 stream 2: many lines, long lines
// ------------------------------------------------------------------------------------------------

struct LineIndex {
    nl: Vec<usize>,
}

impl LineIndex {
    fn new(input: &str) -> LineIndex {
        LineIndex { nl: input.bytes().enumerate().filter(|(_, b)| *b == b'\n').map(|(i, _)| i).collect() }
    }
    /// line = 1 + number of \n before o; column = byte distance to the line start + 1
    fn true_pos(&self, o: usize) -> (usize, usize) {
        let k = self.nl.partition_point(|p| *p < o);
        let start = if k == 0 { 0 } else { self.nl[k - 1] + 1 };
        (k + 1, o - start + 1)
    }
    fn accepted(&self, input: &str, o: usize) -> Vec<(usize, usize)> {
        let mut v = vec![self.true_pos(o)];
        if o > 0 && input.as_bytes()[o - 1] == b'\n' {
            let (l, c) = self.true_pos(o - 1);
            v.push((l, c + 1));
        }
        v
    }
}

fn floor_boundary(input: &str, mut o: usize) -> usize {
    o = o.min(input.len());
    while !input.is_char_boundary(o) {
        o -= 1;
    }
    o
}

pub fn c09_big_case(rng: &mut Rng, st: &mut Stats) -> CaseOutcome {
    let pool = ["[a-c]+", "\\n", "é+", " +", "\"[^\"]*\"", "//.*\\n", "[a-c]+\\n", "€", "\\r\\n|\\r|\\n", "[^z \\n]+"];
    let n = rng.range(1, 4);
    let mut chosen: Vec<&str> = Vec::new();
    while chosen.len() < n {
        let s = *rng.pick(&pool);
        if !chosen.contains(&s) {
            chosen.push(s);
        }
    }
    let pats = chosen.iter().enumerate().map(|(i, s)| RefPattern { re: parse_to_ir(s).unwrap(), tt: i, la: None }).collect();
    let cfg = ScannerCfg::single(pats);
    // shape of the input: many short lines / a few huge lines / both
    let shape = rng.below(3);
    let words = ["a", "abc", "b", "é", "€", "cab", "z", "\"a b\"", "//c"];
    let mut input = String::new();
    let target_lines = match shape {
        0 => rng.range(66_000, 140_000),
        1 => rng.range(2, 6),
        _ => rng.range(300, 3_000),
    };
    for line in 0..target_lines {
        let words_in_line = match shape {
            0 => rng.below(4),
            1 => rng.range(20_000, 60_000),
            _ => {
                if line % 97 == 5 {
                    rng.range(18_000, 30_000)
                } else {
                    rng.below(12)
                }
            }
        };
        for w in 0..words_in_line {
            if w > 0 {
                input.push(' ');
            }
            input.push_str(words[rng.below(words.len())]);
        }
        if rng.chance(1, 40) {
            input.push('\r');
        }
        if rng.chance(1, 60) {
            // a lone carriage return in the middle of a line (no line break by the rule)
            input.push_str("\ra");
        }
        input.push('\n');
        if input.len() > 1_500_000 {
            break;
        }
    }
    if rng.chance(1, 2) {
        input.push_str("abc");
    }
    let ix = LineIndex::new(&input);
    let lines = ix.nl.len() + 1;
    let max_col = {
        let mut m = 0usize;
        let mut prev = 0usize;
        for p in &ix.nl {
            m = m.max(p - prev);
            prev = p + 1;
        }
        m.max(input.len() - prev)
    };
    let use_with_positions = rng.chance(1, 2);
    let case = || json!({"kind": "scale", "patterns": cfg.describe(), "input_bytes": input.len(), "lines": lines, "longest_line_bytes": max_col, "with_positions": use_with_positions});
    let scanner = match cfg.build_uncached() {
        Ok(s) => s,
        Err(e) => return CaseOutcome::Violated(Violation::new(format!("build failed: {}", e), case())),
    };
    st.count("big_input_histories");
    if lines > 65_536 {
        st.count("inputs_with_more_than_65536_lines");
    }
    if max_col > 65_536 {
        st.count("inputs_with_a_line_longer_than_65536_bytes");
    }
    // up to three resets to earlier offsets at random points of the scan
    let mut resets_left = rng.range(1, 3);
    let r = sut(|| -> Result<(), String> {
        let mut hw = 0usize;
        let mut tokens = 0u64;
        let mut queries = 0u64;
        let mut rs = 0u64;
        macro_rules! drive {
            ($it:ident, $next:expr) => {{
                loop {
                    let got: Option<(Tok, (usize, usize), (usize, usize))> = $next(&mut $it);
                    let Some((t, sp, ep)) = got else { break };
                    hw = hw.max(t.end);
                    tokens += 1;
                    let tsp = ix.true_pos(t.start);
                    if sp != tsp {
                        return Err(format!("token {:?}: start position {:?}, true (line, column) of offset {} is {:?}", t, sp, t.start, tsp));
                    }
                    let acc = ix.accepted(&input, t.end);
                    if !acc.contains(&ep) {
                        return Err(format!("token {:?}: end position {:?}, acceptable for offset {}: {:?}", t, ep, t.end, acc));
                    }
                    if rng.chance(1, 200) {
                        let o = floor_boundary(&input, rng.below(hw + 1));
                        let p = PositionProvider::position(&$it, o);
                        queries += 1;
                        let acc = ix.accepted(&input, o);
                        if !acc.contains(&(p.line, p.column)) {
                            return Err(format!("position({}) = ({}, {}), acceptable: {:?} (scanned up to {})", o, p.line, p.column, acc, hw));
                        }
                    }
                    if resets_left > 0 && rng.chance(1, 40_000) {
                        resets_left -= 1;
                        rs += 1;
                        let o = floor_boundary(&input, rng.below(hw + 1));
                        $it.set_offset(o);
                    }
                }
                // after exhaustion: queries anywhere
                for _ in 0..200 {
                    let o = floor_boundary(&input, rng.below(input.len() + 1));
                    let p = PositionProvider::position(&$it, o);
                    queries += 1;
                    let acc = ix.accepted(&input, o);
                    if !acc.contains(&(p.line, p.column)) {
                        return Err(format!("after exhaustion position({}) = ({}, {}), acceptable: {:?}", o, p.line, p.column, acc));
                    }
                }
            }};
        }
        if use_with_positions {
            let mut it = scanner.find_iter(&input).with_positions();
            drive!(it, |it: &mut scnr::WithPositions<scnr::FindMatches>| it.next().map(|m| (
                Tok { tt: m.token_type(), start: m.start(), end: m.end() },
                (m.start_position().line, m.start_position().column),
                (m.end_position().line, m.end_position().column)
            )));
        } else {
            let mut it = scanner.find_iter(&input);
            drive!(it, |it: &mut scnr::FindMatches| it.next().map(|m| {
                let sp = PositionProvider::position(&*it, m.start());
                let ep = PositionProvider::position(&*it, m.end());
                (Tok::from(m), (sp.line, sp.column), (ep.line, ep.column))
            }));
        }
        st.add("big_input_token_positions_checked", tokens);
        st.add("big_input_position_queries", queries);
        st.add("big_input_resets", rs);
        Ok(())
    });
    match r {
        Ok(Ok(())) => {
            st.nontrivial(hash_of(&(&cfg, &input)));
            st.sample(json!({"patterns": cfg.describe(), "input_bytes": input.len(), "lines": lines, "longest_line_bytes": max_col}));
            CaseOutcome::Ok
        }
        Ok(Err(e)) => CaseOutcome::Violated(Violation::new(e, case())),
        Err(p) => CaseOutcome::Violated(Violation::new(format!("panic: {}", p), case())),
    }
}

// ------------------------------------------------------------------------------------------------
// C11 stream 2: large previews
// ------------------------------------------------------------------------------------------------

pub fn c11_big_case(rng: &mut Rng, st: &mut Stats) -> CaseOutcome {
    if rng.chance(1, 12) {
        // previews across 2^16 tokens
        st.count("cases_with_more_than_65536_tokens_to_preview");
        let ns = [65_535usize, 65_536, 65_537, 70_000];
        return c11_preview_case(rng, st, &ns, 90_000, 100_000);
    }
    let ns = [15usize, 16, 17, 31, 32, 33, 64, 255, 256, 257, 1_000, 4_096, 20_000];
    c11_preview_case(rng, st, &ns, 600, 12_000)
}

/// Preview counts far beyond anything the input can deliver ("peek everything that is left"); run in
/// worker processes, because reserving memory for n matches up front ends in an abort, not a panic.
pub fn c11_huge_case(rng: &mut Rng, _index: u64, st: &mut Stats) -> CaseOutcome {
    let ns = [1usize << 33, 1 << 40, usize::MAX, usize::MAX / 24 + 1, isize::MAX as usize, 1 << 31];
    st.count("previews_with_n_beyond_2_pow_31");
    c11_preview_case(rng, st, &ns, 5, 400)
}

fn c11_preview_case(rng: &mut Rng, st: &mut Stats, ns: &[usize], min_words: usize, max_words: usize) -> CaseOutcome {
    // two modes; "x" switches 0 -> 1 and "y" 1 -> 0, rarely present so that previews get long
    let m0 = vec![("[a-c]+", 1usize), ("é", 2), ("x", 3), ("[0-9]", 4)];
    let m1 = vec![("[a-c]", 1usize), ("é+", 5), ("y", 6)];
    let mk = |v: &Vec<(&str, usize)>| v.iter().map(|(s, tt)| RefPattern { re: parse_to_ir(s).unwrap(), tt: *tt, la: None }).collect::<Vec<_>>();
    let cfg = ScannerCfg {
        modes: vec![
            ModeCfg { name: "M0".into(), pats: mk(&m0), trans: vec![(3, 1)] },
            ModeCfg { name: "M1".into(), pats: mk(&m1), trans: vec![(6, 0)] },
        ],
    };
    let words = ["a", "abc", "é", "7", "b", "z", " ", "éé"];
    let mut input = String::new();
    let nwords = rng.range(min_words, max_words);
    let switch_every = *rng.pick(&[0usize, 300, 1_100, 5_000]);
    for i in 0..nwords {
        input.push_str(words[rng.below(words.len())]);
        input.push(' ');
        if switch_every > 0 && i % switch_every == switch_every - 1 {
            input.push_str(if (i / switch_every) % 2 == 0 { "x " } else { "y " });
        }
    }
    let case = |extra: serde_json::Value| json!({"kind": "scale", "patterns": cfg.describe(), "input_bytes": input.len(), "detail": extra});
    let scanner = match cfg.build_uncached() {
        Ok(s) => s,
        Err(e) => return CaseOutcome::Violated(Violation::new(format!("build failed: {}", e), case(json!(null)))),
    };
    let r = sut(|| -> Result<(), String> {
        let mut it = scanner.find_iter(&input);
        for _round in 0..rng.range(3, 8) {
            // move on a little
            for _ in 0..rng.below(50) {
                if it.next().is_none() {
                    break;
                }
            }
            let n = *rng.pick(ns);
            let mode_before = it.current_mode();
            let off_before = it.offset();
            let peeked: Peeked = it.peek_n(n).into();
            st.count("large_peeks");
            if it.current_mode() != mode_before || it.offset() != off_before {
                return Err(format!("peek_n({}) changed the iterator: mode {} -> {}, offset {} -> {}", n, mode_before, it.current_mode(), off_before, it.offset()));
            }
            // prophecy: the following next() calls must yield exactly the previewed tokens
            let toks = peeked.toks().to_vec();
            if toks.len() > 255 {
                st.count("previews_longer_than_255_tokens");
            }
            st.add("previewed_tokens_confirmed_by_next", toks.len() as u64);
            let mode = mode_before;
            let mut switched: Option<usize> = None;
            for (i, t) in toks.iter().enumerate() {
                if switched.is_some() {
                    return Err(format!("peek_n({}) continues after token #{} which triggers a mode switch", n, i - 1));
                }
                let got = it.next().map(Tok::from);
                if got != Some(*t) {
                    return Err(format!("peek_n({}) previewed {:?} as token #{} but next() returns {:?}", n, t, i, got));
                }
                switched = transition_of(&cfg.modes[mode], t.tt);
            }
            // classification
            let ok = match (&peeked, switched) {
                (Peeked::ModeSwitch(_, target), Some(tm)) => *target == tm,
                (Peeked::Matches(v), Some(_)) => v.len() == n,
                (Peeked::Matches(v), None) => v.len() == n,
                (Peeked::ReachedEnd(v), None) => {
                    let more = it.next();
                    if more.is_some() {
                        return Err(format!("peek_n({}) reported the end of the input after {} tokens but next() returns another token {:?}", n, v.len(), more));
                    }
                    !v.is_empty() && v.len() < n
                }
                (Peeked::NotFound, None) => {
                    let more = it.next();
                    if more.is_some() {
                        return Err(format!("peek_n({}) found nothing but next() returns {:?}", n, more));
                    }
                    true
                }
                _ => false,
            };
            if !ok {
                return Err(format!("peek_n({}) classified {} previewed tokens as {} (mode switch by the last one: {:?})", n, toks.len(), match &peeked {
                    Peeked::Matches(_) => "Matches",
                    Peeked::ReachedEnd(_) => "MatchesReachedEnd",
                    Peeked::ModeSwitch(..) => "MatchesReachedModeSwitch",
                    Peeked::NotFound => "NotFound",
                }, switched));
            }
            match &peeked {
                Peeked::ModeSwitch(..) => st.count("large_peek_stopped_by_mode_switch"),
                Peeked::ReachedEnd(_) => st.count("large_peek_stopped_by_input_end"),
                Peeked::Matches(_) => st.count("large_peek_complete"),
                Peeked::NotFound => {}
            }
            if matches!(peeked, Peeked::ReachedEnd(_) | Peeked::NotFound) {
                break;
            }
        }
        Ok(())
    });
    match r {
        Ok(Ok(())) => {
            st.nontrivial(hash_of(&(&input, switch_every)));
            st.sample(json!({"input_bytes": input.len(), "switch_every_n_words": switch_every}));
            CaseOutcome::Ok
        }
        Ok(Err(e)) => CaseOutcome::Violated(Violation::new(e, case(json!(null)))),
        Err(p) => CaseOutcome::Violated(Violation::new(format!("panic: {}", p), case(json!(null)))),
    }
}

// ------------------------------------------------------------------------------------------------
// C04 / C05: long lookahead texts
// ------------------------------------------------------------------------------------------------

/// (pattern, lookahead (positive, pattern), piece kind); piece kinds: 0 = k + (b|c)^L + d,
/// 1 = m m + é^L + x|y, 2 = n + (é|€)^L, 9 = none (filler)
const LA_POOL: [(&str, Option<(bool, &str)>, u8); 9] = [
    ("k", Some((true, "[bc]+d")), 0),
    ("kb", None, 0),
    ("k[bc]*", None, 0),
    ("k[bc]*d", None, 0),
    ("m+", Some((false, "é+x")), 1),
    ("m+é*", Some((true, "x")), 1),
    ("n", Some((true, "(é|€)+")), 2),
    ("n(é|€)*", None, 2),
    ("m", Some((true, "mé+y")), 1),
];
const LA_FILLERS: [&str; 6] = ["[bc]+", "d", "é+", "x", "y", "[€ ]"];

#[cfg(feature = "hooks")]
pub fn long_lookahead_case(rng: &mut Rng, st: &mut Stats, gate_only: bool) -> CaseOutcome {
    let mut idx: Vec<usize> = (0..LA_POOL.len()).collect();
    rng.shuffle(&mut idx);
    idx.truncate(rng.range(2, 5));
    let mut entries: Vec<(String, Option<(bool, String)>)> =
        idx.iter().map(|k| (LA_POOL[*k].0.to_string(), LA_POOL[*k].1.map(|(p, s)| (p, s.to_string())))).collect();
    let mut fill: Vec<&str> = LA_FILLERS.to_vec();
    rng.shuffle(&mut fill);
    for f in fill.iter().take(rng.range(1, 3)) {
        entries.push((f.to_string(), None));
    }
    rng.shuffle(&mut entries);
    let pats: Vec<RefPattern> = entries
        .iter()
        .enumerate()
        .map(|(i, (p, la))| RefPattern { re: parse_to_ir(p).unwrap(), tt: i, la: la.as_ref().map(|(pos, s)| (*pos, parse_to_ir(s).unwrap())) })
        .collect();
    let cfg = ScannerCfg::single(pats);
    let kinds: Vec<u8> = idx.iter().map(|k| LA_POOL[*k].2).collect();
    let mut input = String::new();
    let mut longest = 0usize;
    for _ in 0..rng.range(2, 6) {
        let len = boundary_len(rng);
        longest = longest.max(len);
        match *rng.pick(&kinds) {
            0 => {
                input.push('k');
                for _ in 0..len {
                    input.push(if rng.chance(1, 2) { 'b' } else { 'c' });
                }
                if rng.chance(5, 6) {
                    input.push('d');
                }
            }
            1 => {
                input.push_str(if rng.chance(1, 2) { "mm" } else { "m" });
                input.extend(std::iter::repeat('é').take(len));
                match rng.below(3) {
                    0 => input.push('x'),
                    1 => input.push('y'),
                    _ => {}
                }
            }
            _ => {
                input.push('n');
                for _ in 0..len {
                    input.push(if rng.chance(1, 2) { 'é' } else { '€' });
                }
            }
        }
        if rng.chance(1, 2) {
            input.push(' ');
        }
        if input.len() > 600_000 {
            break;
        }
    }
    let case = || json!({"kind": "scale", "patterns": cfg.describe(), "input_bytes": input.len()});
    let scanner = match cfg.build_uncached() {
        Ok(s) => s,
        Err(e) => return CaseOutcome::Violated(Violation::new(format!("build failed: {}", e), case())),
    };
    st.count("long_lookahead_scans");
    if longest > 255 {
        st.count("scans_with_a_lookahead_text_longer_than_255_chars");
    }
    if longest > 65_535 {
        st.count("scans_with_a_lookahead_text_longer_than_65535_chars");
    }
    let judged = sut(|| if gate_only { crate::reftok::check_corpus_gate(&cfg, &scanner, &input) } else { crate::reftok::check_corpus(&cfg, &scanner, &input) });
    match judged {
        Ok(Ok((tokens, _))) => {
            st.add("long_lookahead_tokens_compared", tokens as u64);
            st.nontrivial(hash_of(&(&cfg, &input)));
            st.sample(json!({"patterns": cfg.describe(), "input_bytes": input.len(), "tokens": tokens, "longest_run_chars": longest}));
            CaseOutcome::Ok
        }
        Ok(Err(e)) => CaseOutcome::Violated(Violation::new(e, case())),
        Err(p) => CaseOutcome::Violated(Violation::new(format!("panic: {}", p), case())),
    }
}

// ------------------------------------------------------------------------------------------------
// C12 stream 3: the amount of work done in between
// ------------------------------------------------------------------------------------------------

/// "A Scanner can be reused for any number of inputs": between two scans of the same probe text the
/// same scanner (or another scanner, or another iterator while the probing iterator is alive) does W
/// units of other work, with W swept over windows around 2^7, 2^8, 2^9, 2^14, 2^16/3, 2^15 and 2^16 -
/// where a counter, a generation number or a ring of marks that is carried from scan to scan wraps.
/// The probe must tokenize the same every time. Everything of one case runs on one thread.
pub fn c12_work_sweep_case(rng: &mut Rng, st: &mut Stats) -> CaseOutcome {
    let mk = |pats: &[(&str, usize)]| ScannerCfg::single(pats.iter().map(|(s, tt)| RefPattern { re: parse_to_ir(s).unwrap(), tt: *tt, la: None }).collect());
    let cfg = mk(&[("abc", 0), ("x+", 1), ("y", 2), ("ab", 3)]);
    let other_cfg = mk(&[("[x-y]", 7), ("q+", 8)]);
    let case = |what: String| json!({"kind": "scale", "detail": what});
    let (scanner, other) = match (cfg.build_uncached(), other_cfg.build_uncached()) {
        (Ok(a), Ok(b)) => (a, b),
        _ => return CaseOutcome::Violated(Violation::new("build failed".to_string(), case(String::new()))),
    };
    let probe = "abc abcab";
    let expected = vec![Tok { tt: 0, start: 0, end: 3 }, Tok { tt: 0, start: 4, end: 7 }, Tok { tt: 3, start: 7, end: 9 }];
    // kind of work in between: unmatched characters / one long token / many short tokens, done by
    // the same scanner, by another scanner, or while the probing iterator is alive (half consumed)
    let kind = rng.below(3);
    let who = rng.below(3);
    let filler_char = ['z', 'x', 'y'][kind];
    let centers = [128usize, 256, 512, 16_384, 21_845, 32_768, 65_536];
    let big = "".to_string() + &std::iter::repeat(filler_char).take(65_536 + 80).collect::<String>();
    let r = sut(|| -> Result<(), String> {
        for c in centers {
            for w in c - 70..=c + 70 {
                let filler = &big[..w];
                let mut live = scanner.find_iter(probe);
                let first = if who == 2 { live.next().map(Tok::from) } else { None };
                // the work in between
                let n = if who == 1 { other.find_iter(filler).count() } else { scanner.find_iter(filler).count() };
                let exp_n = match (who, kind) {
                    (1, 0) => 0,
                    (1, _) => w,
                    (_, 0) => 0,
                    (_, 1) => 1,
                    _ => w,
                };
                if n != exp_n {
                    return Err(format!("the filler of {} characters {:?} was tokenized into {} tokens, expected {}", w, filler_char, n, exp_n));
                }
                st.count("probe_scans_after_swept_amount_of_work");
                let got: Vec<Tok> = if who == 2 {
                    first.into_iter().chain(live.map(Tok::from)).collect()
                } else {
                    scanner.find_iter(probe).map(Tok::from).collect()
                };
                if got != expected {
                    return Err(format!(
                        "after {} characters {:?} scanned in between ({}), the probe {:?} is tokenized as {:?} instead of {:?}",
                        w,
                        filler_char,
                        ["by the same scanner", "by another scanner", "by another iterator while the probing iterator was alive"][who],
                        probe,
                        got,
                        expected
                    ));
                }
            }
        }
        Ok(())
    });
    match r {
        Ok(Ok(())) => {
            st.nontrivial(hash_of(&(kind, who)));
            CaseOutcome::Ok
        }
        Ok(Err(e)) => CaseOutcome::Violated(Violation::new(e.clone(), case(e))),
        Err(p) => CaseOutcome::Violated(Violation::new(format!("panic: {}", p), case(String::new()))),
    }
}
