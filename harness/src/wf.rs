//! Well-formedness monitor for token streams (C07 invariants). Every scan of every workload goes
//! through it, so the invariant oracle runs across all cases the suite generates.
use crate::monitor::sut;
use scnr::{Match, Scanner, ScannerModeSwitcher};

#[derive(Clone, Copy, Debug, PartialEq, Eq, Hash, serde::Serialize, serde::Deserialize)]
pub struct Tok {
    pub tt: usize,
    pub start: usize,
    pub end: usize,
}

impl From<Match> for Tok {
    fn from(m: Match) -> Self {
        Tok {
            tt: m.token_type(),
            start: m.start(),
            end: m.end(),
        }
    }
}

/// Checks one token against the invariants, given the lowest offset it may start at.
pub fn check_token(input: &str, floor: usize, t: &Tok) -> Result<(), String> {
    if t.start >= t.end {
        return Err(format!("empty or inverted span {}..{}", t.start, t.end));
    }
    if t.end > input.len() {
        return Err(format!(
            "span {}..{} outside the input of length {}",
            t.start,
            t.end,
            input.len()
        ));
    }
    if !input.is_char_boundary(t.start) || !input.is_char_boundary(t.end) {
        return Err(format!(
            "span {}..{} not on character boundaries",
            t.start, t.end
        ));
    }
    if t.start < floor {
        return Err(format!(
            "span {}..{} starts before the end of the previous token / the scan start {}",
            t.start, t.end, floor
        ));
    }
    Ok(())
}

/// Scans `input` from `offset` (through with_offset if offset > 0) in mode `mode` and returns the
/// tokens; a panic, a malformed token, a runaway iterator or a `Some` after `None` is an Err.
pub fn scan_all(
    scanner: &Scanner,
    input: &str,
    offset: usize,
    mode: usize,
) -> Result<Vec<Tok>, String> {
    let r = sut(|| {
        let mut it = scanner.find_iter(input);
        if offset > 0 {
            it = it.with_offset(offset);
        }
        if mode != 0 {
            it.set_mode(mode);
        }
        let limit = input.len() - offset.min(input.len()) + 2;
        let mut out: Vec<Tok> = Vec::new();
        let mut floor = offset.min(input.len());
        loop {
            match it.next() {
                Some(m) => {
                    let t: Tok = m.into();
                    if let Err(e) = check_token(input, floor, &t) {
                        return Err(format!("malformed stream: {} (token #{})", e, out.len()));
                    }
                    floor = t.end;
                    out.push(t);
                    if out.len() > limit {
                        return Err("no progress: more tokens than bytes".to_string());
                    }
                }
                None => break,
            }
        }
        for _ in 0..2 {
            if let Some(m) = it.next() {
                return Err(format!(
                    "Some({:?}) returned after the iterator had returned None",
                    Tok::from(m)
                ));
            }
        }
        Ok(out)
    });
    match r {
        Ok(x) => x,
        Err(p) => Err(format!("panic while scanning: {}", p)),
    }
}

pub fn toks_json(ts: &[Tok]) -> serde_json::Value {
    serde_json::json!(ts
        .iter()
        .map(|t| serde_json::json!([t.tt, t.start, t.end]))
        .collect::<Vec<_>>())
}
