//! The repository's own test data as workload: the rows of scnr/tests/match_test.rs (td! = valid
//! pattern with an input, tu! = unsupported feature, tr! = regex parse error), read as data at run
//! time (best effort: rows that cannot be parsed are skipped and counted).
#[derive(Clone, Debug, PartialEq, Eq)]
pub enum RowKind {
    Valid,
    Unsupported,
    ParseError,
}

#[derive(Clone, Debug)]
pub struct Row {
    pub kind: RowKind,
    pub pattern: String,
    pub input: String,
    pub number: String,
}

/// Parses a Rust string literal starting at the opening quote; returns (value, index after it).
fn parse_rust_string(s: &[char], mut i: usize) -> Option<(String, usize)> {
    if s.get(i) != Some(&'"') {
        return None;
    }
    i += 1;
    let mut out = String::new();
    while i < s.len() {
        match s[i] {
            '"' => return Some((out, i + 1)),
            '\\' => {
                i += 1;
                match s.get(i)? {
                    'n' => out.push('\n'),
                    'r' => out.push('\r'),
                    't' => out.push('\t'),
                    '0' => out.push('\0'),
                    '\\' => out.push('\\'),
                    '"' => out.push('"'),
                    '\'' => out.push('\''),
                    'x' => {
                        let h: String = s.get(i + 1..i + 3)?.iter().collect();
                        out.push(char::from_u32(u32::from_str_radix(&h, 16).ok()?)?);
                        i += 2;
                    }
                    'u' => {
                        if s.get(i + 1) != Some(&'{') {
                            return None;
                        }
                        let mut j = i + 2;
                        let mut h = String::new();
                        while j < s.len() && s[j] != '}' {
                            if s[j] != '_' {
                                h.push(s[j]);
                            }
                            j += 1;
                        }
                        out.push(char::from_u32(u32::from_str_radix(&h, 16).ok()?)?);
                        i = j;
                    }
                    '\n' => {
                        // line continuation: skip leading whitespace of the next line
                        while i + 1 < s.len() && s[i + 1].is_whitespace() {
                            i += 1;
                        }
                    }
                    _ => return None,
                }
                i += 1;
            }
            c => {
                out.push(c);
                i += 1;
            }
        }
    }
    None
}

/// Parses a raw string literal r#"..."# (any number of #) starting at 'r'.
fn parse_raw_string(s: &[char], mut i: usize) -> Option<(String, usize)> {
    if s.get(i) != Some(&'r') {
        return None;
    }
    i += 1;
    let mut hashes = 0;
    while s.get(i) == Some(&'#') {
        hashes += 1;
        i += 1;
    }
    if s.get(i) != Some(&'"') {
        return None;
    }
    i += 1;
    let start = i;
    while i < s.len() {
        if s[i] == '"' && (0..hashes).all(|k| s.get(i + 1 + k) == Some(&'#')) {
            let v: String = s[start..i].iter().collect();
            return Some((v, i + 1 + hashes));
        }
        i += 1;
    }
    None
}

pub fn match_test_rows() -> (Vec<Row>, usize) {
    let Ok(text) = std::fs::read_to_string("/repo/scnr/tests/match_test.rs") else {
        return (vec![], 0);
    };
    // drop line comments (commented-out rows)
    let text: String = text
        .lines()
        .filter(|l| !l.trim_start().starts_with("//"))
        .collect::<Vec<_>>()
        .join("\n");
    let cs: Vec<char> = text.chars().collect();
    let mut rows = Vec::new();
    let mut unparsed = 0;
    let mut i = 0;
    let skip_ws = |cs: &[char], mut i: usize| {
        while cs.get(i).map_or(false, |c| *c == ',' || c.is_whitespace()) {
            i += 1;
        }
        i
    };
    while i + 4 <= cs.len() {
        let head: String = cs[i..i + 4].iter().collect();
        let kind = match head.as_str() {
            "td!(" => RowKind::Valid,
            "tu!(" => RowKind::Unsupported,
            "tr!(" => RowKind::ParseError,
            _ => {
                i += 1;
                continue;
            }
        };
        // the macro definitions themselves are followed by '$'
        let mut j = skip_ws(&cs, i + 4);
        let parsed = (|| {
            let (pattern, k) = if cs.get(j) == Some(&'r') { parse_raw_string(&cs, j)? } else { parse_rust_string(&cs, j)? };
            j = skip_ws(&cs, k);
            let (input, k2) = if cs.get(j) == Some(&'r') { parse_raw_string(&cs, j)? } else { parse_rust_string(&cs, j)? };
            Some((pattern, input, k2))
        })();
        match parsed {
            Some((pattern, input, k2)) => {
                rows.push(Row { kind, pattern, input, number: rows.len().to_string() });
                i = k2;
            }
            None => {
                if cs.get(j) != Some(&'$') {
                    unparsed += 1;
                }
                i += 4;
            }
        }
    }
    (rows, unparsed)
}
