//! Workload generators (DESIGN 5): patterns as IR, classes, modes, inputs, samples of a language.
use crate::cfg::{ModeCfg, ScannerCfg};
use crate::ir::*;
use crate::refsem::{mem_leaf, RefPattern};
use crate::rng::Rng;

/// Letters patterns are made of: small so that languages overlap, multi-byte so that every span
/// computation is exercised.
pub const PAT_LETTERS: [char; 8] = ['a', 'b', 'c', 'é', '€', '😀', '\n', ' '];
/// Characters inputs may contain in addition (mentioned by no literal).
pub const EXTRA_INPUT: [char; 4] = ['z', 'ж', '\r', '\t'];

#[derive(Clone, Debug)]
pub struct GenParams {
    pub letters: Vec<char>,
    pub max_depth: usize,
    pub max_nodes: usize,
    pub allow_empty_alt: bool,
    pub allow_classes: bool,
    pub allow_perl: bool,
    pub allow_dot: bool,
    pub allow_unicode: bool,
    pub max_rep: u32,
    pub styles: bool,
}

/// Supported Unicode classes used as leaves (few, so that a class and its negation often meet in
/// one scanner).
pub const UNI_LEAVES: [&str; 4] = ["L", "N", "Alphabetic", "Lowercase"];

impl Default for GenParams {
    fn default() -> Self {
        GenParams {
            letters: PAT_LETTERS.to_vec(),
            max_depth: 4,
            // under Miri everything is about four orders of magnitude slower: small terms, and no
            // Perl classes (their calibration scans all scalar values)
            max_nodes: if cfg!(miri) { 6 } else { 12 },
            allow_empty_alt: true,
            allow_classes: true,
            allow_perl: !cfg!(miri),
            allow_dot: true,
            allow_unicode: !cfg!(miri),
            max_rep: 3,
            styles: true,
        }
    }
}

/// Characters at the edges of the UTF-8 encoding lengths and of the ASCII range (NUL, DEL, U+0080,
/// U+00FF, U+07FF, U+0800, U+FFFF, U+10000): where a table indexed by code point, a fast path for
/// ASCII or a length computation goes wrong first.
pub const BOUNDARY_LETTERS: [char; 10] = ['\0', '\u{7f}', '\u{80}', '\u{ff}', '\u{7ff}', '\u{800}', '\u{ffff}', '\u{10000}', 'a', 'b'];

impl GenParams {
    /// The default parameters; one case in seven uses the boundary alphabet instead of the usual one.
    pub fn varied(rng: &mut Rng) -> Self {
        let mut p = GenParams::default();
        if rng.chance(1, 7) && !cfg!(miri) {
            p.letters = BOUNDARY_LETTERS.to_vec();
        }
        p
    }
    pub fn ascii_ab() -> Self {
        GenParams {
            letters: vec!['a', 'b'],
            allow_classes: false,
            allow_perl: false,
            allow_dot: false,
            allow_unicode: false,
            styles: false,
            ..Default::default()
        }
    }
}

pub fn gen_lit_style(rng: &mut Rng, c: char) -> LitStyle {
    match rng.below(12) {
        0 if (c as u32) <= 0xFF => LitStyle::Hex2,
        1 => LitStyle::HexBrace,
        2 if (c as u32) <= 0xFFFF => LitStyle::U4,
        3 => LitStyle::UBrace,
        4 => LitStyle::U8,
        5 if matches!(c, '\n' | '\t' | '\r') => LitStyle::Special,
        _ => LitStyle::Verbatim,
    }
}

pub fn gen_small_class(rng: &mut Rng, p: &GenParams) -> Class {
    let n = rng.range(1, 3);
    let mut items = Vec::new();
    for _ in 0..n {
        match rng.below(10) {
            0..=5 => {
                let c = *rng.pick(&p.letters);
                let st = if p.styles {
                    gen_lit_style(rng, c)
                } else {
                    LitStyle::Verbatim
                };
                items.push(Item::Lit(c, st));
            }
            6 | 7 => {
                let a = *rng.pick(&p.letters);
                let b = *rng.pick(&p.letters);
                let (a, b) = if a <= b { (a, b) } else { (b, a) };
                items.push(Item::Range(a, b));
            }
            8 if p.allow_perl => {
                items.push(Item::Perl(
                    *rng.pick(&[PerlKind::Digit, PerlKind::Space, PerlKind::Word]),
                    rng.chance(1, 4),
                ));
            }
            _ => {
                items.push(Item::Range('a', 'c'));
            }
        }
    }
    let set = if rng.chance(1, 6) {
        let c = *rng.pick(&p.letters);
        let op = *rng.pick(&[BinOp::Inter, BinOp::Diff, BinOp::SymDiff]);
        CSet::Bin(
            Box::new(CSet::Union(items)),
            op,
            Box::new(CSet::Union(vec![Item::Lit(c, LitStyle::Verbatim)])),
        )
    } else {
        CSet::Union(items)
    };
    Class {
        neg: rng.chance(1, 5),
        set,
    }
}

pub fn gen_leaf(rng: &mut Rng, p: &GenParams) -> Re {
    let r = rng.below(20);
    if r < 13 {
        let c = *rng.pick(&p.letters);
        let st = if p.styles {
            gen_lit_style(rng, c)
        } else {
            LitStyle::Verbatim
        };
        Re::Lit(c, st)
    } else if r < 15 && p.allow_dot {
        Re::Dot
    } else if r < 18 && p.allow_classes {
        Re::Class(gen_small_class(rng, p))
    } else if r < 19 && p.allow_perl {
        if p.allow_unicode && rng.chance(1, 3) {
            Re::Uni(UNI_LEAVES[rng.below(UNI_LEAVES.len())].to_string(), rng.chance(1, 2))
        } else {
            Re::Perl(
                *rng.pick(&[PerlKind::Digit, PerlKind::Space, PerlKind::Word]),
                rng.chance(1, 4),
            )
        }
    } else {
        Re::Lit(*rng.pick(&p.letters), LitStyle::Verbatim)
    }
}

fn gen_re_inner(rng: &mut Rng, p: &GenParams, depth: usize, budget: &mut usize) -> Re {
    if *budget > 0 {
        *budget -= 1;
    }
    if depth >= p.max_depth || *budget == 0 || rng.chance(3, 10) {
        return gen_leaf(rng, p);
    }
    match rng.below(16) {
        0..=3 => {
            let n = rng.range(2, 3);
            Re::Cat(
                (0..n)
                    .map(|_| gen_re_inner(rng, p, depth + 1, budget))
                    .collect(),
            )
        }
        4..=6 => {
            let n = rng.range(2, 3);
            let mut xs: Vec<Re> = (0..n)
                .map(|_| gen_re_inner(rng, p, depth + 1, budget))
                .collect();
            if p.allow_empty_alt && rng.chance(1, 5) {
                let pos = rng.below(xs.len() + 1);
                let e = match rng.below(4) {
                    0 => Re::Group(GroupKind::Capture, Box::new(Re::Empty)),
                    1 => Re::Rep(Box::new(gen_leaf(rng, p)), 0, RepMax::Exactly),
                    _ => Re::Empty,
                };
                xs.insert(pos, e);
            }
            Re::Alt(xs)
        }
        7 | 8 => Re::Star(Box::new(gen_re_inner(rng, p, depth + 1, budget))),
        9 | 10 => Re::Plus(Box::new(gen_re_inner(rng, p, depth + 1, budget))),
        11 => Re::Opt(Box::new(gen_re_inner(rng, p, depth + 1, budget))),
        12 | 13 => {
            let m = rng.below(p.max_rep as usize + 1) as u32;
            let max = match rng.below(3) {
                0 => RepMax::Exactly,
                1 => RepMax::AtLeast,
                _ => RepMax::Bounded(m + rng.below((p.max_rep - m.min(p.max_rep)) as usize + 1) as u32),
            };
            Re::Rep(Box::new(gen_re_inner(rng, p, depth + 2, budget)), m, max)
        }
        _ => {
            let k = match rng.below(4) {
                0 => GroupKind::NonCapture,
                1 => GroupKind::Named("n".to_string()),
                _ => GroupKind::Capture,
            };
            Re::Group(k, Box::new(gen_re_inner(rng, p, depth + 1, budget)))
        }
    }
}

pub fn gen_re(rng: &mut Rng, p: &GenParams) -> Re {
    let mut budget = p.max_nodes;
    let mut re = gen_re_inner(rng, p, 0, &mut budget);
    let mut counter = 0;
    uniquify_group_names(&mut re, &mut counter);
    re
}

/// Capture group names must be unique within one pattern.
pub fn uniquify_group_names(re: &mut Re, counter: &mut usize) {
    match re {
        Re::Group(k, x) => {
            if let GroupKind::Named(n) = k {
                *n = format!("n{}", *counter);
                *counter += 1;
            }
            uniquify_group_names(x, counter);
        }
        Re::Cat(xs) | Re::Alt(xs) => {
            for x in xs {
                uniquify_group_names(x, counter)
            }
        }
        Re::Star(x) | Re::Plus(x) | Re::Opt(x) | Re::Rep(x, _, _) => {
            uniquify_group_names(x, counter)
        }
        _ => {}
    }
}

/// A pattern that cannot match the empty string (for lookaheads).
pub fn gen_non_nullable(rng: &mut Rng, p: &GenParams) -> Re {
    for _ in 0..8 {
        let r = gen_re(rng, p);
        if !r.nullable() {
            return r;
        }
    }
    Re::Cat(vec![gen_leaf(rng, p), gen_re(rng, p)])
}

/// Appends a random member of the language of `re` (best effort for classes).
pub fn sample(re: &Re, rng: &mut Rng, letters: &[char], out: &mut String) {
    match re {
        Re::Empty => {}
        Re::Lit(c, _) => out.push(*c),
        Re::Dot | Re::Class(_) | Re::Perl(..) | Re::Uni(..) => {
            for _ in 0..12 {
                let c = if rng.chance(3, 4) {
                    *rng.pick(letters)
                } else {
                    *rng.pick(&['0', '_', 'A', 'z', 'ж', '\t', '-'])
                };
                if mem_leaf(re, c) {
                    out.push(c);
                    return;
                }
            }
        }
        Re::Cat(xs) => {
            for x in xs {
                sample(x, rng, letters, out)
            }
        }
        Re::Alt(xs) => {
            if !xs.is_empty() {
                let i = rng.below(xs.len());
                sample(&xs[i], rng, letters, out)
            }
        }
        Re::Star(x) => {
            for _ in 0..rng.below(4) {
                sample(x, rng, letters, out)
            }
        }
        Re::Plus(x) => {
            for _ in 0..rng.range(1, 3) {
                sample(x, rng, letters, out)
            }
        }
        Re::Opt(x) => {
            if rng.chance(1, 2) {
                sample(x, rng, letters, out)
            }
        }
        Re::Rep(x, m, max) => {
            let n = match max {
                RepMax::Exactly => *m,
                RepMax::AtLeast => *m + rng.below(3) as u32,
                RepMax::Bounded(n) => *m + rng.below((*n - *m.min(n)) as usize + 1) as u32,
            };
            for _ in 0..n {
                sample(x, rng, letters, out)
            }
        }
        Re::Group(_, x) => sample(x, rng, letters, out),
        Re::Raw(_) => {}
    }
}

/// Input generator: a mix of members of the pattern languages, near misses and noise.
pub fn gen_input(rng: &mut Rng, res: &[&Re], letters: &[char], max_chars: usize) -> String {
    let max_chars = if cfg!(miri) { max_chars.min(8) } else { max_chars };
    let mut s = String::new();
    let target = rng.below(max_chars + 1);
    let mut guard = 0;
    while s.chars().count() < target && guard < 200 {
        guard += 1;
        match rng.below(10) {
            0..=4 if !res.is_empty() => {
                let re = res[rng.below(res.len())];
                let mut piece = String::new();
                sample(re, rng, letters, &mut piece);
                // Sometimes cut a piece short (near miss).
                if rng.chance(1, 5) && !piece.is_empty() {
                    let n = piece.chars().count();
                    let keep = rng.below(n);
                    piece = piece.chars().take(keep).collect();
                }
                s.push_str(&piece);
            }
            5..=7 => s.push(*rng.pick(letters)),
            8 => s.push(*rng.pick(&EXTRA_INPUT)),
            _ => {
                // a run
                let c = *rng.pick(letters);
                for _ in 0..rng.range(2, 5) {
                    s.push(c);
                }
            }
        }
    }
    if s.chars().count() > max_chars {
        s = s.chars().take(max_chars).collect();
    }
    s
}

/// Token types: either the pattern index or distinct "arbitrary numbers".
pub fn gen_token_types(rng: &mut Rng, n: usize, by_index: bool) -> Vec<usize> {
    if by_index {
        return (0..n).collect();
    }
    // token types are `usize` in the API: values beyond 32 bits are part of "arbitrary numbers"
    const INTERESTING: [usize; 11] = [
        0,
        1,
        2,
        255,
        65_535,
        65_536,
        1_000_000,
        u32::MAX as usize,
        u32::MAX as usize + 1,
        u32::MAX as usize + 6,
        usize::MAX,
    ];
    let mut out: Vec<usize> = Vec::new();
    while out.len() < n {
        let t = if rng.chance(1, 3) {
            *rng.pick(&INTERESTING)
        } else {
            rng.below(40)
        };
        if !out.contains(&t) {
            out.push(t);
        }
    }
    out
}

#[derive(Clone, Debug)]
pub struct ModeParams {
    pub min_pats: usize,
    pub max_pats: usize,
    /// probability (percent) that a pattern gets a lookahead
    pub la_percent: usize,
    pub by_index: bool,
}

/// Pattern families that make ties, prefixes and overlaps frequent.
pub fn gen_family(rng: &mut Rng, p: &GenParams) -> Vec<Re> {
    let lit = |c: char| Re::Lit(c, LitStyle::Verbatim);
    let word = |s: &str| Re::Cat(s.chars().map(lit).collect());
    match rng.below(6) {
        // keyword vs identifier
        0 => vec![
            word("ab"),
            Re::Plus(Box::new(Re::Class(Class {
                neg: false,
                set: CSet::Union(vec![Item::Range('a', 'c')]),
            }))),
        ],
        // common prefixes
        1 => vec![word("a"), word("ab"), word("abc")],
        // equal languages written differently
        2 => {
            let r = gen_re(rng, p);
            let mut v = vec![
                Re::Group(GroupKind::Capture, Box::new(r.clone())),
                r.clone(),
                Re::Alt(vec![r.clone(), r]),
            ];
            for x in v.iter_mut() {
                let mut counter = 0;
                uniquify_group_names(x, &mut counter);
            }
            v
        }
        // nullable patterns
        3 => vec![
            Re::Star(Box::new(lit('a'))),
            Re::Alt(vec![lit('b'), Re::Empty]),
            Re::Opt(Box::new(word("ab"))),
        ],
        // partially overlapping classes
        4 => vec![
            Re::Plus(Box::new(Re::Class(Class {
                neg: false,
                set: CSet::Union(vec![Item::Range('a', 'b')]),
            }))),
            Re::Plus(Box::new(Re::Class(Class {
                neg: false,
                set: CSet::Union(vec![Item::Range('b', 'c')]),
            }))),
            Re::Plus(Box::new(Re::Class(Class {
                neg: true,
                set: CSet::Union(vec![Item::Lit('a', LitStyle::Verbatim)]),
            }))),
        ],
        // a long literal and a dot-star-like pattern
        _ => vec![
            Re::Cat(vec![lit('a'), Re::Star(Box::new(Re::Dot)), lit('b')]),
            Re::Plus(Box::new(lit('a'))),
            lit('b'),
        ],
    }
}

pub fn gen_pattern_list(rng: &mut Rng, p: &GenParams, mp: &ModeParams) -> Vec<RefPattern> {
    let n = rng.range(mp.min_pats, mp.max_pats);
    let mut res: Vec<Re> = Vec::new();
    if rng.chance(1, 3) {
        res.extend(gen_family(rng, p));
    }
    while res.len() < n {
        res.push(gen_re(rng, p));
    }
    rng.shuffle(&mut res);
    res.truncate(n.max(mp.min_pats));
    let tts = gen_token_types(rng, res.len(), mp.by_index);
    let mut pats: Vec<RefPattern> = res
        .into_iter()
        .zip(tts)
        .map(|(re, tt)| {
            let la = if rng.below(100) < mp.la_percent {
                Some((rng.chance(1, 2), gen_non_nullable(rng, p)))
            } else {
                None
            };
            RefPattern { re, tt, la }
        })
        .collect();
    // now and then two lookahead-free patterns of a mode share one token type (token type numbers
    // are arbitrary; which of the two matched is then not observable, and need not be)
    // The two are ADJACENT in the list: the crate ranks patterns by the first occurrence of their
    // token type ("the token type identifies the pattern"), the statement of C01 by list position;
    // for adjacent patterns of one type both readings give the same observable result, so the
    // oracle demands nothing the statement leaves open.
    if !mp.by_index && pats.len() >= 2 && rng.chance(1, 6) {
        let a = rng.below(pats.len() - 1);
        if pats[a].la.is_none() && pats[a + 1].la.is_none() {
            pats[a + 1].tt = pats[a].tt;
        }
    }
    pats
}

pub fn gen_single_mode(rng: &mut Rng, p: &GenParams, mp: &ModeParams) -> ScannerCfg {
    ScannerCfg {
        modes: vec![ModeCfg {
            name: "INITIAL".into(),
            pats: gen_pattern_list(rng, p, mp),
            trans: vec![],
        }],
    }
}

/// All IR terms over the given leaves with at most `ops` operators (systematic part).
pub fn enumerate_terms(leaves: &[Re], ops: usize) -> Vec<Re> {
    // terms[k] = all terms with exactly k operators
    let mut terms: Vec<Vec<Re>> = vec![leaves.to_vec()];
    for k in 1..=ops {
        let mut cur = Vec::new();
        // unary operators on a term with k-1 operators
        for t in &terms[k - 1] {
            cur.push(Re::Star(Box::new(t.clone())));
            cur.push(Re::Plus(Box::new(t.clone())));
            cur.push(Re::Opt(Box::new(t.clone())));
        }
        // binary operators: i + j = k - 1
        for i in 0..k {
            let j = k - 1 - i;
            for a in &terms[i] {
                for b in &terms[j] {
                    cur.push(Re::Cat(vec![a.clone(), b.clone()]));
                    cur.push(Re::Alt(vec![a.clone(), b.clone()]));
                }
            }
        }
        terms.push(cur);
    }
    terms.into_iter().flatten().collect()
}

/// All strings over `alphabet` with length <= max_len.
pub fn enumerate_strings(alphabet: &[char], max_len: usize) -> Vec<String> {
    let mut out = vec![String::new()];
    let mut frontier = vec![String::new()];
    for _ in 0..max_len {
        let mut next = Vec::new();
        for s in &frontier {
            for c in alphabet {
                let mut t = s.clone();
                t.push(*c);
                next.push(t);
            }
        }
        out.extend(next.iter().cloned());
        frontier = next;
    }
    out
}
