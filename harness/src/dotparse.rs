//! A strict lexer/parser for the subset of the DOT language the export uses (DESIGN 4.6):
//! digraph { a=b; ID [k=v,...]; ID -> ID [...]; subgraph ID { ... } } with Graphviz's quoted-string
//! lexing (a string ends at the first quote that is not preceded by an unpaired backslash).
//! Anything it cannot parse is "not well-formed".

#[derive(Debug, Clone, PartialEq)]
enum T {
    Id(String),
    /// quoted string, raw content between the quotes (escapes not resolved)
    Str(String),
    LBrace,
    RBrace,
    LBracket,
    RBracket,
    Eq,
    Semi,
    Comma,
    Arrow,
    Colon,
}

fn lex(src: &str) -> Result<Vec<T>, String> {
    let cs: Vec<char> = src.chars().collect();
    let mut i = 0;
    let mut out = Vec::new();
    while i < cs.len() {
        let c = cs[i];
        if c.is_whitespace() {
            i += 1;
            continue;
        }
        match c {
            '{' => {
                out.push(T::LBrace);
                i += 1
            }
            '}' => {
                out.push(T::RBrace);
                i += 1
            }
            '[' => {
                out.push(T::LBracket);
                i += 1
            }
            ']' => {
                out.push(T::RBracket);
                i += 1
            }
            '=' => {
                out.push(T::Eq);
                i += 1
            }
            ';' => {
                out.push(T::Semi);
                i += 1
            }
            ',' => {
                out.push(T::Comma);
                i += 1
            }
            ':' => {
                out.push(T::Colon);
                i += 1
            }
            '-' if i + 1 < cs.len() && cs[i + 1] == '>' => {
                out.push(T::Arrow);
                i += 2
            }
            '"' => {
                let mut j = i + 1;
                let mut s = String::new();
                let mut closed = false;
                while j < cs.len() {
                    if cs[j] == '\\' && j + 1 < cs.len() {
                        s.push(cs[j]);
                        s.push(cs[j + 1]);
                        j += 2;
                        continue;
                    }
                    if cs[j] == '"' {
                        closed = true;
                        break;
                    }
                    s.push(cs[j]);
                    j += 1;
                }
                if !closed {
                    return Err(format!("unterminated string starting at character {}", i));
                }
                out.push(T::Str(s));
                i = j + 1;
            }
            c if c.is_alphanumeric() || c == '_' || c == '.' || (c == '-' && i + 1 < cs.len() && cs[i + 1].is_ascii_digit()) => {
                let mut j = i + 1;
                while j < cs.len() && (cs[j].is_alphanumeric() || cs[j] == '_' || cs[j] == '.') {
                    j += 1;
                }
                out.push(T::Id(cs[i..j].iter().collect()));
                i = j;
            }
            other => return Err(format!("unexpected character {:?} at {}", other, i)),
        }
    }
    Ok(out)
}

#[derive(Debug, Clone, Default, PartialEq)]
pub struct Graph {
    pub attrs: Vec<(String, String)>,
    /// (id, attributes)
    pub nodes: Vec<(String, Vec<(String, String)>)>,
    /// (from, to, attributes)
    pub edges: Vec<(String, String, Vec<(String, String)>)>,
    pub subgraphs: Vec<(String, Graph)>,
}

impl Graph {
    pub fn attr(&self, k: &str) -> Option<&str> {
        self.attrs.iter().find(|(a, _)| a == k).map(|(_, v)| v.as_str())
    }
}

pub fn attr_of<'a>(attrs: &'a [(String, String)], k: &str) -> Option<&'a str> {
    attrs.iter().find(|(a, _)| a == k).map(|(_, v)| v.as_str())
}

struct P {
    t: Vec<T>,
    i: usize,
}

impl P {
    fn peek(&self) -> Option<&T> {
        self.t.get(self.i)
    }
    fn next(&mut self) -> Option<T> {
        let x = self.t.get(self.i).cloned();
        self.i += 1;
        x
    }
    fn id(&mut self) -> Result<String, String> {
        match self.next() {
            Some(T::Id(s)) | Some(T::Str(s)) => Ok(s),
            other => Err(format!("identifier expected at token {}, found {:?}", self.i - 1, other)),
        }
    }
    fn attr_list(&mut self) -> Result<Vec<(String, String)>, String> {
        let mut out = Vec::new();
        while self.peek() == Some(&T::LBracket) {
            self.next();
            loop {
                match self.peek() {
                    Some(T::RBracket) => {
                        self.next();
                        break;
                    }
                    Some(T::Comma) | Some(T::Semi) => {
                        self.next();
                    }
                    Some(_) => {
                        let k = self.id()?;
                        if self.next() != Some(T::Eq) {
                            return Err(format!("'=' expected after attribute name {:?}", k));
                        }
                        let v = self.id()?;
                        out.push((k, v));
                    }
                    None => return Err("unterminated attribute list".into()),
                }
            }
        }
        Ok(out)
    }
    fn stmt_list(&mut self, g: &mut Graph) -> Result<(), String> {
        loop {
            match self.peek().cloned() {
                None => return Err("'}' expected before the end of the file".into()),
                Some(T::RBrace) => {
                    self.next();
                    return Ok(());
                }
                Some(T::Semi) => {
                    self.next();
                }
                Some(T::Id(ref s)) if s == "subgraph" => {
                    self.next();
                    let name = if let Some(T::LBrace) = self.peek() {
                        String::new()
                    } else {
                        self.id()?
                    };
                    if self.next() != Some(T::LBrace) {
                        return Err("'{' expected after subgraph".into());
                    }
                    let mut sub = Graph::default();
                    self.stmt_list(&mut sub)?;
                    g.subgraphs.push((name, sub));
                }
                Some(T::Id(_)) | Some(T::Str(_)) => {
                    let first = self.id()?;
                    match self.peek() {
                        Some(T::Eq) => {
                            self.next();
                            let v = self.id()?;
                            g.attrs.push((first, v));
                        }
                        Some(T::Arrow) => {
                            let mut chain = vec![first];
                            while self.peek() == Some(&T::Arrow) {
                                self.next();
                                chain.push(self.id()?);
                            }
                            let attrs = self.attr_list()?;
                            for w in chain.windows(2) {
                                g.edges.push((w[0].clone(), w[1].clone(), attrs.clone()));
                            }
                        }
                        _ => {
                            let attrs = self.attr_list()?;
                            g.nodes.push((first, attrs));
                        }
                    }
                }
                Some(other) => return Err(format!("unexpected token {:?} at {}", other, self.i)),
            }
        }
    }
}

/// Parses a DOT file consisting of one digraph.
pub fn parse(src: &str) -> Result<Graph, String> {
    let t = lex(src)?;
    let mut p = P { t, i: 0 };
    match p.next() {
        Some(T::Id(s)) if s == "digraph" || s == "strict" => {
            if s == "strict" {
                match p.next() {
                    Some(T::Id(s2)) if s2 == "digraph" => {}
                    _ => return Err("'digraph' expected".into()),
                }
            }
        }
        other => return Err(format!("'digraph' expected, found {:?}", other)),
    }
    if let Some(T::Id(_)) | Some(T::Str(_)) = p.peek() {
        p.next();
    }
    if p.next() != Some(T::LBrace) {
        return Err("'{' expected".into());
    }
    let mut g = Graph::default();
    p.stmt_list(&mut g)?;
    if p.peek().is_some() {
        return Err(format!("trailing tokens after the graph: {:?}", p.peek()));
    }
    Ok(g)
}

#[cfg(test)]
mod tests {
    use super::*;
    #[test]
    fn good_and_bad() {
        let ok = r#"digraph {
  label="Compiled DFA M: a\"b\\...";
  rankdir=LR;
  "0" [shape=circle, color=blue, penwidth=3, label="0"];
  "1" [label="1 T5"];
  "0" -> "1" [label="\" (C#0)"];
  subgraph cluster_0 { label="LA for T5(Pos)"; "5_0" [label="0"]; "5_0" -> "5_0" [label="a (C#1)"]; }
}"#;
        let g = parse(ok).unwrap();
        assert_eq!(g.nodes.len(), 2);
        assert_eq!(g.edges.len(), 1);
        assert_eq!(g.subgraphs.len(), 1);
        assert!(parse("digraph { label=\"a \"b\"; }").is_err());
        assert!(parse("digraph { \"0\" [label=\"x\" }").is_err());
        assert!(parse("digraph { ").is_err());
        assert!(parse("graph { }").is_err());
    }
}
