//! C08: character classes are the set algebra of their parts, for every Unicode scalar value.
use crate::checks_tok::cfg_from_json;
use crate::ir::*;
use crate::monitor::*;
use crate::refsem::*;
use crate::rng::Rng;
use serde_json::{json, Value};

const SUPPORTED_UNICODE: &[&str] = &[
    "L", "N", "Z", "P", "C", "Alphabetic", "ASCII_Hex_Digit", "Cased", "Dash", "Lowercase",
    "Uppercase", "White_Space", "XID_Start", "XID_Continue", "ID_Start", "ID_Continue", "Math",
    "Hex_Digit", "Emoji", "Ideographic", "Quotation_Mark", "Terminal_Punctuation",
];

const EDGE_CHARS: &[char] = &[
    '\u{0}', '\u{1}', '\t', '\n', '\r', ' ', '!', '-', '.', '0', '9', 'A', 'Z', '^', '_', 'a', 'z',
    '[', ']', '\\', '&', '~', '\u{7f}', '\u{80}', 'é', '\u{7ff}', '\u{800}', '€', '\u{d7ff}',
    '\u{e000}', '\u{ffff}', '\u{10000}', '😀', '\u{10ffff}',
];

fn gen_char(rng: &mut Rng) -> char {
    if rng.chance(2, 3) {
        *rng.pick(EDGE_CHARS)
    } else {
        loop {
            if let Some(c) = char::from_u32(rng.below(0x110000) as u32) {
                return c;
            }
        }
    }
}

fn lit_style_for(rng: &mut Rng, c: char) -> LitStyle {
    let cp = c as u32;
    let printable = c.is_ascii_graphic() || (cp > 0xA0 && !c.is_control() && cp != 0x2028 && cp != 0x2029);
    let r = rng.below(8);
    match r {
        0 if cp <= 0xFF => LitStyle::Hex2,
        1 => LitStyle::HexBrace,
        2 if cp <= 0xFFFF => LitStyle::U4,
        3 => LitStyle::U8,
        4 if matches!(c, '\n' | '\t' | '\r' | '\x0C' | '\x0B' | '\x07') => LitStyle::Special,
        5 if c.is_ascii_punctuation() => LitStyle::Escaped,
        _ if printable && c != '.' => LitStyle::Verbatim,
        _ => LitStyle::UBrace,
    }
}

fn gen_item(rng: &mut Rng, depth: usize, st: &mut Stats) -> Item {
    match rng.below(14) {
        0..=3 => {
            let c = gen_char(rng);
            st.count("item_literal");
            Item::Lit(c, lit_style_for(rng, c))
        }
        4..=6 => {
            let a = gen_char(rng);
            let b = match rng.below(4) {
                0 => a,
                1 => char::from_u32(a as u32 + 1).unwrap_or(a),
                _ => gen_char(rng),
            };
            let (a, b) = if a <= b { (a, b) } else { (b, a) };
            st.count("item_range");
            Item::Range(a, b)
        }
        7 => {
            st.count("item_perl");
            Item::Perl(*rng.pick(&[PerlKind::Digit, PerlKind::Space, PerlKind::Word]), rng.chance(1, 2))
        }
        8 => {
            st.count("item_posix");
            Item::Ascii(ASCII_KINDS[rng.below(ASCII_KINDS.len())], rng.chance(1, 3))
        }
        9 => {
            st.count("item_unicode");
            Item::Uni(SUPPORTED_UNICODE[rng.below(SUPPORTED_UNICODE.len())].to_string(), rng.chance(1, 3))
        }
        10 => {
            st.count("item_verbatim_dot");
            Item::DotVerbatim
        }
        _ if depth < 3 => {
            st.count("item_nested");
            Item::Nested(gen_class(rng, depth + 1, st))
        }
        _ => Item::Lit('a', LitStyle::Verbatim),
    }
}

fn gen_union(rng: &mut Rng, depth: usize, st: &mut Stats) -> CSet {
    let n = rng.range(1, 3);
    CSet::Union((0..n).map(|_| gen_item(rng, depth, st)).collect())
}

pub fn gen_class(rng: &mut Rng, depth: usize, st: &mut Stats) -> Class {
    let mut set = gen_union(rng, depth, st);
    // chains of binary operators (left associative)
    let nops = match rng.below(6) {
        0 | 1 | 2 => 0,
        3 | 4 => 1,
        _ => 2,
    };
    for _ in 0..nops {
        let op = *rng.pick(&[BinOp::Inter, BinOp::Diff, BinOp::SymDiff]);
        st.count(match op {
            BinOp::Inter => "op_intersection",
            BinOp::Diff => "op_difference",
            BinOp::SymDiff => "op_symmetric_difference",
        });
        let rhs = gen_union(rng, depth, st);
        set = CSet::Bin(Box::new(set), op, Box::new(rhs));
    }
    let neg = rng.chance(1, 3);
    if neg {
        st.count(&format!("negation_at_depth_{}", depth));
    }
    Class { neg, set }
}

fn describe_diff(pattern: &str, observed: &CharSet, expected: &CharSet) -> String {
    let c = observed.first_difference(expected).unwrap();
    format!(
        "class {:?}: U+{:04X} is {} by the scanner but {} the set algebra of the items ({} scalar values differ; the scanner accepts {}, the reference {})",
        pattern,
        c as u32,
        if observed.has(c) { "matched" } else { "not matched" },
        if expected.has(c) { "in" } else { "not in" },
        observed.difference_count(expected),
        observed.count(),
        expected.count()
    )
}

fn check_pattern_set(pattern: &str, expected: &CharSet, kind: &str) -> Result<(), Violation> {
    let case = json!({"kind": "c08", "pattern": pattern, "what": kind});
    let observed = match sut(|| scan_class_set(pattern)) {
        Err(p) => return Err(Violation::new(format!("panic for class {:?}: {}", pattern, p), case)),
        Ok(Err(e)) => return Err(Violation::new(format!("class {:?}: {}", pattern, e), case)),
        Ok(Ok(s)) => s,
    };
    if &observed != expected {
        return Err(Violation::new(describe_diff(pattern, &observed, expected), case));
    }
    #[cfg(feature = "hooks")]
    {
        // second observation: the registered predicate itself, through the hook
        let mode = scnr::ScannerMode::new("M", vec![scnr::Pattern::new(pattern.to_string(), 7)], Vec::<(usize, usize)>::new());
        if let Ok(sc) = scnr::ScannerBuilder::new().add_scanner_mode(mode).build_uncached() {
            if sc.verif_class_count() == 1 {
                let mut x: u32 = 0x1234_5678;
                for _ in 0..2048 {
                    x ^= x << 13;
                    x ^= x >> 17;
                    x ^= x << 5;
                    if let Some(c) = char::from_u32(x % 0x110000) {
                        if sc.verif_class_matches(0, c) != Some(observed.has(c)) {
                            return Err(Violation::new(
                                format!("class {:?}: the registered predicate and the scan disagree on U+{:04X}", pattern, c as u32),
                                json!({"kind": "c08", "pattern": pattern}),
                            ));
                        }
                    }
                }
            }
        }
    }
    Ok(())
}

/// Two related classes in ONE scanner (first listed wins): the characters reported with the first
/// token type must be the first set, those with the second type the second set minus the first.
/// Catches classes that are only confused with each other when they meet in one scanner.
fn check_pair_in_one_scanner(p0: &str, s0: &CharSet, p1: &str, s1: &CharSet) -> Result<(), Violation> {
    let case = json!({"kind": "c08", "patterns": [p0, p1], "what": "two related classes in one scanner"});
    let mode = scnr::ScannerMode::new(
        "M",
        vec![scnr::Pattern::new(p0.to_string(), 7), scnr::Pattern::new(p1.to_string(), 8)],
        Vec::<(usize, usize)>::new(),
    );
    let r = sut(|| -> Result<(CharSet, CharSet), String> {
        let sc = scnr::ScannerBuilder::new().add_scanner_mode(mode).build_uncached().map_err(|e| format!("build failed: {}", e))?;
        let all = all_scalars();
        let mut a = CharSet::empty();
        let mut b = CharSet::empty();
        for m in sc.find_iter(all) {
            let c = all[m.start()..].chars().next().unwrap();
            if m.end() - m.start() != c.len_utf8() {
                return Err(format!("token {}..{} is not a single character", m.start(), m.end()));
            }
            match m.token_type() {
                7 => a.set(c),
                8 => b.set(c),
                t => return Err(format!("unexpected token type {}", t)),
            }
        }
        Ok((a, b))
    });
    let (a, b) = match r {
        Err(p) => return Err(Violation::new(format!("panic for classes {:?}, {:?}: {}", p0, p1, p), case)),
        Ok(Err(e)) => return Err(Violation::new(format!("classes {:?}, {:?}: {}", p0, p1, e), case)),
        Ok(Ok(x)) => x,
    };
    if &a != s0 {
        return Err(Violation::new(format!("in a scanner that also contains {:?}: {}", p1, describe_diff(p0, &a, s0)), case));
    }
    let mut exp1 = s1.clone();
    for (w, x) in exp1.words.iter_mut().zip(s0.words.iter()) {
        *w &= !x;
    }
    if b != exp1 {
        return Err(Violation::new(format!("in a scanner that lists {:?} first: {}", p0, describe_diff(p1, &b, &exp1)), case));
    }
    Ok(())
}

pub fn c08_class_case(rng: &mut Rng, _i: u64, st: &mut Stats) -> CaseOutcome {
    let class = gen_class(rng, 0, st);
    let re = Re::Class(class.clone());
    if !print_parse_roundtrip_ok(&re) {
        st.count("harness_guard_print_parse_mismatch");
        return CaseOutcome::Skipped;
    }
    let pattern = class.to_syntax();
    let expected = set_of_class(&class);
    st.count("class_expressions");
    st.count(&format!("nesting_depth_{}", class.depth().min(4)));
    st.nontrivial(hash_of(&pattern));
    st.sample(json!({"class": pattern, "members": expected.count()}));
    if let Err(mut v) = check_pattern_set(&pattern, &expected, "generated class") {
        v.case["class_ir"] = json!(class);
        return CaseOutcome::Violated(v);
    }
    // the same class next to a close relative in one scanner (every third case)
    if rng.chance(1, 3) {
        let mut rel = class.clone();
        match rng.below(3) {
            0 => rel.neg = !rel.neg,
            1 => {
                // flip the polarity of the first named item
                fn flip(cs: &mut CSet) -> bool {
                    match cs {
                        CSet::Union(items) => {
                            for it in items.iter_mut() {
                                match it {
                                    Item::Perl(_, n) | Item::Ascii(_, n) | Item::Uni(_, n) => {
                                        *n = !*n;
                                        return true;
                                    }
                                    Item::Nested(c) => {
                                        if flip(&mut c.set) {
                                            return true;
                                        }
                                    }
                                    _ => {}
                                }
                            }
                            false
                        }
                        CSet::Bin(l, _, r) => flip(l) || flip(r),
                    }
                }
                if !flip(&mut rel.set) {
                    rel.neg = !rel.neg;
                }
            }
            _ => rel = gen_class(rng, 0, &mut Stats::default()),
        }
        if print_parse_roundtrip_ok(&Re::Class(rel.clone())) && rel != class {
            st.count("class_pairs_in_one_scanner");
            let (p0, p1) = (pattern.clone(), rel.to_syntax());
            let (s0, s1) = (expected.clone(), set_of_class(&rel));
            let r = if rng.chance(1, 2) {
                check_pair_in_one_scanner(&p0, &s0, &p1, &s1)
            } else {
                check_pair_in_one_scanner(&p1, &s1, &p0, &s0)
            };
            if let Err(v) = r {
                return CaseOutcome::Violated(v);
            }
        }
    }
    CaseOutcome::Ok
}

pub fn c08_literal_case(rng: &mut Rng, _i: u64, st: &mut Stats) -> CaseOutcome {
    let c = gen_char(rng);
    let style = lit_style_for(rng, c);
    let mut pattern = String::new();
    print_lit(c, style, &mut pattern);
    // guard: must parse to that literal
    match parse_to_ir(&pattern) {
        Ok(Re::Lit(c2, _)) if c2 == c => {}
        _ => {
            st.count("harness_guard_print_parse_mismatch");
            return CaseOutcome::Skipped;
        }
    }
    let mut expected = CharSet::empty();
    expected.set(c);
    st.count("single_literals");
    st.nontrivial(hash_of(&pattern));
    match check_pattern_set(&pattern, &expected, "a literal matches only itself") {
        Ok(()) => CaseOutcome::Ok,
        Err(v) => CaseOutcome::Violated(v),
    }
}

/// The fixed statements: `.`, \d \s \w restricted to ASCII, \D \S \W complements.
fn fixed_statements(res: &mut RunResult) {
    let mut check = |name: &str, r: Result<(), Violation>| {
        res.stats.count("fixed_statements");
        res.stats.evaluations += 1;
        let _ = name;
        if let Err(v) = r {
            res.violations.push(v);
        }
    };
    // dot
    let mut dot = CharSet::empty();
    dot.set('\n');
    dot.set('\r');
    dot.complement_in_place();
    check("dot", check_pattern_set(".", &dot, "`.` matches everything except \\n and \\r"));
    // perl classes
    for (pos, negp, f) in [
        ("\\d", "\\D", (|c: char| c.is_ascii_digit()) as fn(char) -> bool),
        ("\\s", "\\S", |c: char| matches!(c, '\t' | '\n' | '\x0B' | '\x0C' | '\r' | ' ')),
        ("\\w", "\\W", |c: char| c.is_ascii_alphanumeric() || c == '_'),
    ] {
        let observed_pos = match sut(|| scan_class_set(pos)) {
            Ok(Ok(s)) => s,
            Ok(Err(e)) => {
                check(pos, Err(Violation::new(format!("{}: {}", pos, e), json!({"kind": "c08", "pattern": pos}))));
                continue;
            }
            Err(p) => {
                check(pos, Err(Violation::new(format!("{}: panic {}", pos, p), json!({"kind": "c08", "pattern": pos}))));
                continue;
            }
        };
        // ASCII restriction
        let mut r = Ok(());
        for cp in 0..128u32 {
            let c = char::from_u32(cp).unwrap();
            if observed_pos.has(c) != f(c) {
                r = Err(Violation::new(
                    format!("{} restricted to ASCII: U+{:04X} is {}matched", pos, cp, if observed_pos.has(c) { "" } else { "not " }),
                    json!({"kind": "c08", "pattern": pos}),
                ));
                break;
            }
        }
        check(pos, r);
        // complement
        let expected_neg = observed_pos.complement();
        check(negp, check_pattern_set(negp, &expected_neg, "\\D \\S \\W are the complements of \\d \\s \\w"));
        // the same items inside brackets
        check(pos, check_pattern_set(&format!("[{}]", pos), &observed_pos, "a named item contributes the set it denotes alone"));
        check(negp, check_pattern_set(&format!("[{}]", negp), &expected_neg, "negated named item inside brackets"));
        check(negp, check_pattern_set(&format!("[^{}]", pos), &expected_neg, "negated bracket around a named item"));
    }
    // a named item and its negation in ONE scanner, in both orders (top-level forms)
    {
        let mut pairs: Vec<(String, String)> = vec![
            ("\\d".into(), "\\D".into()),
            ("\\s".into(), "\\S".into()),
            ("\\w".into(), "\\W".into()),
        ];
        for name in SUPPORTED_UNICODE {
            if name.len() == 1 {
                pairs.push((format!("\\p{}", name), format!("\\P{}", name)));
            } else {
                pairs.push((format!("\\p{{{}}}", name), format!("\\P{{{}}}", name)));
            }
        }
        for k in ASCII_KINDS {
            pairs.push((format!("[[:{}:]]", k.name()), format!("[[:^{}:]]", k.name())));
        }
        for (pos, neg) in pairs {
            if let Ok(Ok(p)) = sut(|| scan_class_set(&pos)) {
                let c = p.complement();
                check(&pos, check_pair_in_one_scanner(&pos, &p, &neg, &c));
                check(&neg, check_pair_in_one_scanner(&neg, &c, &pos, &p));
            }
        }
    }
    // double negations: a negated bracket around a single negated named item is the item itself
    {
        let mut forms: Vec<(String, String)> = vec![
            ("\\d".into(), "[^\\D]".into()),
            ("\\s".into(), "[^\\S]".into()),
            ("\\w".into(), "[^\\W]".into()),
        ];
        for k in ASCII_KINDS {
            forms.push((format!("[[:{}:]]", k.name()), format!("[^[:^{}:]]", k.name())));
            forms.push((format!("[[:{}:]]", k.name()), format!("[a&&[^[:^{}:]]~~a]", k.name())));
        }
        for name in SUPPORTED_UNICODE {
            if name.len() == 1 {
                forms.push((format!("\\p{}", name), format!("[^\\P{}]", name)));
            } else {
                forms.push((format!("\\p{{{}}}", name), format!("[^\\P{{{}}}]", name)));
            }
        }
        for (pos, double_neg) in forms {
            if let Ok(Ok(p)) = sut(|| scan_class_set(&pos)) {
                let expected = if double_neg.starts_with("[a&&") {
                    // [a && X ~~ a] = ({a} ∩ X) Δ {a}  = {a} \ X
                    let mut e = CharSet::empty();
                    if !p.has('a') {
                        e.set('a');
                    }
                    e
                } else {
                    p.clone()
                };
                check(&double_neg, check_pattern_set(&double_neg, &expected, "double negation of a named item"));
            }
        }
    }
    // every POSIX and supported Unicode item: negated form = complement of the positive form
    for k in ASCII_KINDS {
        let pos = format!("[[:{}:]]", k.name());
        let neg = format!("[[:^{}:]]", k.name());
        if let Ok(Ok(p)) = sut(|| scan_class_set(&pos)) {
            check(&neg, check_pattern_set(&neg, &p.complement(), "negated POSIX item"));
            check(&neg, check_pattern_set(&format!("[^[:{}:]]", k.name()), &p.complement(), "negated bracket around a POSIX item"));
        } else {
            check(&pos, Err(Violation::new(format!("{} cannot be observed", pos), json!({"kind": "c08", "pattern": pos}))));
        }
    }
    for name in SUPPORTED_UNICODE {
        let (pos, neg) = if name.len() == 1 {
            (format!("\\p{}", name), format!("\\P{}", name))
        } else {
            (format!("\\p{{{}}}", name), format!("\\P{{{}}}", name))
        };
        if let Ok(Ok(p)) = sut(|| scan_class_set(&pos)) {
            check(&neg, check_pattern_set(&neg, &p.complement(), "negated Unicode item"));
            check(&pos, check_pattern_set(&format!("[{}]", pos), &p, "Unicode item inside brackets"));
        } else {
            check(&pos, Err(Violation::new(format!("{} cannot be observed", pos), json!({"kind": "c08", "pattern": pos}))));
        }
    }
}

/// Every bracketed class that occurs in the repository's corpora.
fn corpus_classes() -> Vec<Class> {
    fn walk(re: &Re, out: &mut Vec<Class>) {
        match re {
            Re::Class(c) => out.push(c.clone()),
            Re::Cat(xs) | Re::Alt(xs) => xs.iter().for_each(|x| walk(x, out)),
            Re::Star(x) | Re::Plus(x) | Re::Opt(x) | Re::Rep(x, _, _) | Re::Group(_, x) => walk(x, out),
            _ => {}
        }
    }
    let mut out = Vec::new();
    let mut files = vec![std::path::PathBuf::from("/repo/scnr/benches/veryl_modes.json")];
    if let Ok(rd) = std::fs::read_dir("/repo/scnr/tests/data") {
        for e in rd.flatten() {
            let p = e.path();
            if p.extension().map_or(false, |x| x == "json") && !p.to_string_lossy().contains("_tokens") {
                files.push(p);
            }
        }
    }
    files.sort();
    for f in files {
        let Ok(text) = std::fs::read_to_string(&f) else { continue };
        let Ok(v) = serde_json::from_str::<Value>(&text) else { continue };
        if let Some(cfg) = cfg_from_json(&v) {
            for re in cfg.all_res() {
                walk(re, &mut out);
            }
        }
    }
    out.sort();
    out.dedup();
    out
}

pub fn c08(tier: Tier) -> i32 {
    let ctx = Ctx::new("C08", tier, "exploration");
    let mut res = RunResult::new();
    let n = ctx.scale(400, 12_000);
    res.merge(run_cases(&ctx, 1, n, |rng, i, st| c08_class_case(rng, i, st)));
    let nl = ctx.scale(300, 3_000);
    res.merge(run_cases(&ctx, 2, nl, |rng, i, st| c08_literal_case(rng, i, st)));
    fixed_statements(&mut res);
    let corpus = corpus_classes();
    let ncorpus = corpus.len() as u64;
    res.merge(run_cases(&ctx, 3, ncorpus, |_rng, i, st| {
        let class = &corpus[i as usize];
        let pattern = class.to_syntax();
        st.count("corpus_classes");
        st.nontrivial(hash_of(&pattern));
        match check_pattern_set(&pattern, &set_of_class(class), "corpus class") {
            Ok(()) => CaseOutcome::Ok,
            Err(v) => CaseOutcome::Violated(v),
        }
    }));
    let report = Report::new(
        "class expressions generated as IR up to nesting depth 3 (literals in every escape style, ranges with equal / adjacent / multi-byte / extreme bounds such as U+0000, U+D7FF, U+E000, U+10FFFF, nested and negated sub-classes, chains of && -- ~~, negation at every level, every Perl / POSIX / supported Unicode item, the verbatim dot), single literals, the fixed statements about `.`, \\d \\s \\w and their complements, and every class of the repository's corpora. Observation exactly as the property states: a scanner is built from the single pattern and run over the string of all 1,112,064 scalar values; the set of characters reported as tokens is compared bit for bit with the set algebra of the items (named items calibrated: their set is whatever the scanner built from that item alone accepts; ASCII part of \\d \\s \\w fixed). Second observation through the hook (the registered predicate) must agree with the scan. Distinct by pattern text.",
    )
    .floor("class_expressions", 300)
    .floor("single_literals", 200)
    .floor("fixed_statements", 50)
    .floor("op_intersection", 20)
    .floor("op_difference", 20)
    .floor("op_symmetric_difference", 20)
    .floor("negation_at_depth_0", 20)
    .floor("negation_at_depth_1", 20)
    .floor("negation_at_depth_2", 20)
    .floor("item_posix", 20)
    .floor("item_unicode", 20)
    .floor("item_perl", 20)
    .floor("item_nested", 20)
    .floor("corpus_classes", 10)
    .floor("class_pairs_in_one_scanner", 50)
    .extra("exhaustive_chars", json!(true))
    .extra("scalar_values_per_expression", json!(1_112_064))
    .assume("named items (\\d \\s \\w outside ASCII, POSIX and Unicode items) are judged compositionally: their absolute Unicode content is not part of the property");
    finish(&ctx, res, report)
}
