//! Regex IR, printer to regex syntax and converter from `regex_syntax::ast` (DESIGN 4.1).
//!
//! Generated cases are built as IR first and printed to syntax, so the reference semantics never
//! depends on a parser. Corpus patterns go through `regex_syntax::ast::parse` -> IR.
use regex_syntax::ast;
use serde::{Deserialize, Serialize};

#[derive(Clone, Copy, Debug, PartialEq, Eq, Hash, Serialize, Deserialize, PartialOrd, Ord)]
pub enum LitStyle {
    Verbatim,
    /// `\x61`
    Hex2,
    /// `\x{61}`
    HexBrace,
    /// `a`
    U4,
    /// `\u{61}`
    UBrace,
    /// `\U00000061`
    U8,
    /// `\.` (meta or superfluous escape)
    Escaped,
    /// `\n \t \r \f \v \a`
    Special,
}

#[derive(Clone, Copy, Debug, PartialEq, Eq, Hash, Serialize, Deserialize, PartialOrd, Ord)]
pub enum PerlKind {
    Digit,
    Space,
    Word,
}

#[derive(Clone, Copy, Debug, PartialEq, Eq, Hash, Serialize, Deserialize, PartialOrd, Ord)]
pub enum AsciiKind {
    Alnum,
    Alpha,
    Ascii,
    Blank,
    Cntrl,
    Digit,
    Graph,
    Lower,
    Print,
    Punct,
    Space,
    Upper,
    Word,
    Xdigit,
}

pub const ASCII_KINDS: [AsciiKind; 14] = [
    AsciiKind::Alnum,
    AsciiKind::Alpha,
    AsciiKind::Ascii,
    AsciiKind::Blank,
    AsciiKind::Cntrl,
    AsciiKind::Digit,
    AsciiKind::Graph,
    AsciiKind::Lower,
    AsciiKind::Print,
    AsciiKind::Punct,
    AsciiKind::Space,
    AsciiKind::Upper,
    AsciiKind::Word,
    AsciiKind::Xdigit,
];

impl AsciiKind {
    pub fn name(self) -> &'static str {
        match self {
            AsciiKind::Alnum => "alnum",
            AsciiKind::Alpha => "alpha",
            AsciiKind::Ascii => "ascii",
            AsciiKind::Blank => "blank",
            AsciiKind::Cntrl => "cntrl",
            AsciiKind::Digit => "digit",
            AsciiKind::Graph => "graph",
            AsciiKind::Lower => "lower",
            AsciiKind::Print => "print",
            AsciiKind::Punct => "punct",
            AsciiKind::Space => "space",
            AsciiKind::Upper => "upper",
            AsciiKind::Word => "word",
            AsciiKind::Xdigit => "xdigit",
        }
    }
}

#[derive(Clone, Copy, Debug, PartialEq, Eq, Hash, Serialize, Deserialize, PartialOrd, Ord)]
pub enum BinOp {
    Inter,
    Diff,
    SymDiff,
}

#[derive(Clone, Debug, PartialEq, Eq, Hash, Serialize, Deserialize, PartialOrd, Ord)]
pub enum Item {
    Lit(char, LitStyle),
    /// A verbatim `.` inside brackets: denotes the dot set (everything but \n and \r).
    DotVerbatim,
    Range(char, char),
    Perl(PerlKind, bool),
    Ascii(AsciiKind, bool),
    /// Unicode class: name (one letter or long name), negated.
    Uni(String, bool),
    Nested(Class),
}

#[derive(Clone, Debug, PartialEq, Eq, Hash, Serialize, Deserialize, PartialOrd, Ord)]
pub enum CSet {
    Union(Vec<Item>),
    Bin(Box<CSet>, BinOp, Box<CSet>),
}

#[derive(Clone, Debug, PartialEq, Eq, Hash, Serialize, Deserialize, PartialOrd, Ord)]
pub struct Class {
    pub neg: bool,
    pub set: CSet,
}

#[derive(Clone, Debug, PartialEq, Eq, Hash, Serialize, Deserialize, PartialOrd, Ord)]
pub enum GroupKind {
    Capture,
    NonCapture,
    Named(String),
}

#[derive(Clone, Copy, Debug, PartialEq, Eq, Hash, Serialize, Deserialize, PartialOrd, Ord)]
pub enum RepMax {
    Exactly,
    AtLeast,
    Bounded(u32),
}

#[derive(Clone, Debug, PartialEq, Eq, Hash, Serialize, Deserialize, PartialOrd, Ord)]
pub enum Re {
    Empty,
    Lit(char, LitStyle),
    Dot,
    Class(Class),
    Perl(PerlKind, bool),
    Uni(String, bool),
    Cat(Vec<Re>),
    Alt(Vec<Re>),
    Star(Box<Re>),
    Plus(Box<Re>),
    Opt(Box<Re>),
    Rep(Box<Re>, u32, RepMax),
    Group(GroupKind, Box<Re>),
    /// A fragment of raw regex syntax, printed as is (used to plant unsupported constructs; never
    /// reaches the reference semantics).
    Raw(String),
}

// ------------------------------------------------------------------------------------------------
// Printer
// ------------------------------------------------------------------------------------------------

pub fn is_meta(c: char) -> bool {
    matches!(
        c,
        '\\' | '.' | '+' | '*' | '?' | '(' | ')' | '|' | '[' | ']' | '{' | '}' | '^' | '$' | '#'
            | '&' | '-' | '~'
    )
}

fn special_escape(c: char) -> Option<&'static str> {
    Some(match c {
        '\n' => "\\n",
        '\t' => "\\t",
        '\r' => "\\r",
        '\x0C' => "\\f",
        '\x0B' => "\\v",
        '\x07' => "\\a",
        _ => return None,
    })
}

pub fn print_lit(c: char, style: LitStyle, out: &mut String) {
    let cp = c as u32;
    match style {
        LitStyle::Hex2 if cp <= 0xFF => out.push_str(&format!("\\x{:02X}", cp)),
        LitStyle::U4 if cp <= 0xFFFF => out.push_str(&format!("\\u{:04X}", cp)),
        LitStyle::U8 => out.push_str(&format!("\\U{:08X}", cp)),
        LitStyle::HexBrace => out.push_str(&format!("\\x{{{:X}}}", cp)),
        LitStyle::UBrace | LitStyle::Hex2 | LitStyle::U4 => {
            out.push_str(&format!("\\u{{{:X}}}", cp))
        }
        LitStyle::Special if special_escape(c).is_some() => {
            out.push_str(special_escape(c).unwrap())
        }
        _ => {
            // Verbatim, Escaped, or a Special that has no special escape.
            if is_meta(c) {
                out.push('\\');
                out.push(c);
            } else if style == LitStyle::Escaped
                && c.is_ascii()
                && !c.is_ascii_alphanumeric()
                && c != '<'
                && c != '>'
                && !c.is_ascii_control()
                && c != ' '
            {
                out.push('\\');
                out.push(c);
            } else {
                out.push(c);
            }
        }
    }
}

fn print_perl(k: PerlKind, neg: bool, out: &mut String) {
    out.push_str(match (k, neg) {
        (PerlKind::Digit, false) => "\\d",
        (PerlKind::Digit, true) => "\\D",
        (PerlKind::Space, false) => "\\s",
        (PerlKind::Space, true) => "\\S",
        (PerlKind::Word, false) => "\\w",
        (PerlKind::Word, true) => "\\W",
    });
}

fn print_uni(name: &str, neg: bool, out: &mut String) {
    out.push_str(if neg { "\\P" } else { "\\p" });
    if name.chars().count() == 1 {
        out.push_str(name);
    } else {
        out.push('{');
        out.push_str(name);
        out.push('}');
    }
}

fn print_item(it: &Item, out: &mut String) {
    match it {
        Item::Lit(c, s) => print_lit(*c, *s, out),
        Item::DotVerbatim => out.push('.'),
        Item::Range(a, b) => {
            let style = |c: char| {
                if c.is_ascii_graphic() || (c as u32 > 0xA0 && c as u32 != 0x2028 && c as u32 != 0x2029 && !c.is_control()) {
                    LitStyle::Verbatim
                } else {
                    LitStyle::UBrace
                }
            };
            print_lit(*a, style(*a), out);
            out.push('-');
            print_lit(*b, style(*b), out);
        }
        Item::Perl(k, n) => print_perl(*k, *n, out),
        Item::Ascii(k, n) => {
            out.push_str("[:");
            if *n {
                out.push('^');
            }
            out.push_str(k.name());
            out.push_str(":]");
        }
        Item::Uni(name, n) => print_uni(name, *n, out),
        Item::Nested(c) => print_class(c, out),
    }
}

fn print_cset(s: &CSet, out: &mut String) {
    match s {
        CSet::Union(items) => {
            for it in items {
                print_item(it, out);
            }
        }
        CSet::Bin(l, op, r) => {
            print_cset(l, out);
            out.push_str(match op {
                BinOp::Inter => "&&",
                BinOp::Diff => "--",
                BinOp::SymDiff => "~~",
            });
            match **r {
                CSet::Union(_) => print_cset(r, out),
                CSet::Bin(..) => {
                    // The grammar is left associative: a right operand that is itself a binary
                    // operation must be bracketed.
                    out.push('[');
                    print_cset(r, out);
                    out.push(']');
                }
            }
        }
    }
}

pub fn print_class(c: &Class, out: &mut String) {
    out.push('[');
    if c.neg {
        out.push('^');
    }
    print_cset(&c.set, out);
    out.push(']');
}

fn is_atomic(re: &Re) -> bool {
    matches!(
        re,
        Re::Lit(..) | Re::Dot | Re::Class(_) | Re::Perl(..) | Re::Uni(..) | Re::Group(..)
    )
}

fn print_rep_operand(re: &Re, out: &mut String) {
    if is_atomic(re) {
        print_re(re, out);
    } else {
        out.push_str("(?:");
        print_re(re, out);
        out.push(')');
    }
}

pub fn print_re(re: &Re, out: &mut String) {
    match re {
        Re::Empty => {}
        Re::Lit(c, s) => print_lit(*c, *s, out),
        Re::Dot => out.push('.'),
        Re::Class(c) => print_class(c, out),
        Re::Perl(k, n) => print_perl(*k, *n, out),
        Re::Uni(name, n) => print_uni(name, *n, out),
        Re::Cat(xs) => {
            for x in xs {
                match x {
                    Re::Cat(_) | Re::Alt(_) | Re::Empty => {
                        out.push_str("(?:");
                        print_re(x, out);
                        out.push(')');
                    }
                    _ => print_re(x, out),
                }
            }
        }
        Re::Alt(xs) => {
            for (i, x) in xs.iter().enumerate() {
                if i > 0 {
                    out.push('|');
                }
                match x {
                    Re::Alt(_) => {
                        out.push_str("(?:");
                        print_re(x, out);
                        out.push(')');
                    }
                    _ => print_re(x, out),
                }
            }
        }
        Re::Star(x) => {
            print_rep_operand(x, out);
            out.push('*');
        }
        Re::Plus(x) => {
            print_rep_operand(x, out);
            out.push('+');
        }
        Re::Opt(x) => {
            print_rep_operand(x, out);
            out.push('?');
        }
        Re::Rep(x, m, max) => {
            print_rep_operand(x, out);
            match max {
                RepMax::Exactly => out.push_str(&format!("{{{}}}", m)),
                RepMax::AtLeast => out.push_str(&format!("{{{},}}", m)),
                RepMax::Bounded(n) => out.push_str(&format!("{{{},{}}}", m, n)),
            }
        }
        Re::Raw(t) => out.push_str(t),
        Re::Group(k, x) => {
            match k {
                GroupKind::Capture => out.push('('),
                GroupKind::NonCapture => out.push_str("(?:"),
                GroupKind::Named(n) => out.push_str(&format!("(?P<{}>", n)),
            }
            print_re(x, out);
            out.push(')');
        }
    }
}

impl Re {
    pub fn to_syntax(&self) -> String {
        let mut s = String::new();
        // A top level alternation or anything else prints as is.
        print_re(self, &mut s);
        s
    }

    /// True if the expression matches the empty string.
    pub fn nullable(&self) -> bool {
        match self {
            Re::Empty => true,
            Re::Lit(..) | Re::Dot | Re::Class(_) | Re::Perl(..) | Re::Uni(..) | Re::Raw(_) => false,
            Re::Cat(xs) => xs.iter().all(|x| x.nullable()),
            Re::Alt(xs) => xs.is_empty() || xs.iter().any(|x| x.nullable()),
            Re::Star(_) | Re::Opt(_) => true,
            Re::Plus(x) => x.nullable(),
            Re::Rep(x, m, _) => *m == 0 || x.nullable(),
            Re::Group(_, x) => x.nullable(),
        }
    }

    /// Number of nodes.
    pub fn size(&self) -> usize {
        1 + match self {
            Re::Cat(xs) | Re::Alt(xs) => xs.iter().map(|x| x.size()).sum(),
            Re::Star(x) | Re::Plus(x) | Re::Opt(x) | Re::Rep(x, _, _) | Re::Group(_, x) => {
                x.size()
            }
            _ => 0,
        }
    }

    /// True if an alternation has a first branch that denotes exactly {epsilon} and compiles to
    /// the one-state NFA (shape of defect D1).
    pub fn has_empty_first_alternative(&self) -> bool {
        fn trivially_empty(re: &Re) -> bool {
            match re {
                Re::Empty => true,
                Re::Group(_, x) => trivially_empty(x),
                Re::Cat(xs) => xs.iter().all(trivially_empty),
                Re::Rep(_, 0, RepMax::Exactly) | Re::Rep(_, 0, RepMax::Bounded(0)) => true,
                Re::Rep(x, _, RepMax::Exactly) => trivially_empty(x),
                Re::Alt(xs) => xs.iter().all(trivially_empty),
                _ => false,
            }
        }
        match self {
            Re::Alt(xs) => {
                xs.first().map_or(false, trivially_empty)
                    || xs.iter().any(|x| x.has_empty_first_alternative())
            }
            Re::Cat(xs) => xs.iter().any(|x| x.has_empty_first_alternative()),
            Re::Star(x) | Re::Plus(x) | Re::Opt(x) | Re::Rep(x, _, _) | Re::Group(_, x) => {
                x.has_empty_first_alternative()
            }
            _ => false,
        }
    }

    /// Structure normalised for comparing a printed-and-parsed term with its origin: groups
    /// removed, literal styles dropped, Cat/Alt flattened where the parser would flatten them.
    pub fn normalized(&self) -> Re {
        match self {
            Re::Empty => Re::Empty,
            Re::Lit(c, _) => Re::Lit(*c, LitStyle::Verbatim),
            Re::Dot => Re::Dot,
            Re::Class(c) => Re::Class(c.normalized()),
            Re::Perl(k, n) => Re::Perl(*k, *n),
            Re::Uni(s, n) => Re::Uni(s.clone(), *n),
            Re::Raw(t) => Re::Raw(t.clone()),
            Re::Cat(xs) => {
                let mut out = Vec::new();
                for x in xs {
                    match x.normalized() {
                        Re::Empty => {}
                        Re::Cat(ys) => out.extend(ys),
                        y => out.push(y),
                    }
                }
                match out.len() {
                    0 => Re::Empty,
                    1 => out.pop().unwrap(),
                    _ => Re::Cat(out),
                }
            }
            Re::Alt(xs) => {
                let mut out = Vec::new();
                for x in xs {
                    match x.normalized() {
                        Re::Alt(ys) => out.extend(ys),
                        y => out.push(y),
                    }
                }
                if out.len() == 1 {
                    out.pop().unwrap()
                } else {
                    Re::Alt(out)
                }
            }
            Re::Star(x) => Re::Star(Box::new(x.normalized())),
            Re::Plus(x) => Re::Plus(Box::new(x.normalized())),
            Re::Opt(x) => Re::Opt(Box::new(x.normalized())),
            Re::Rep(x, m, n) => Re::Rep(Box::new(x.normalized()), *m, *n),
            Re::Group(_, x) => x.normalized(),
        }
    }
}

impl Class {
    pub fn to_syntax(&self) -> String {
        let mut s = String::new();
        print_class(self, &mut s);
        s
    }

    pub fn normalized(&self) -> Class {
        Class {
            neg: self.neg,
            set: self.set.normalized(),
        }
    }

    pub fn depth(&self) -> usize {
        self.set.depth() + 1
    }
}

impl CSet {
    pub fn normalized(&self) -> CSet {
        match self {
            CSet::Union(items) => CSet::Union(
                items
                    .iter()
                    .map(|it| match it {
                        Item::Lit(c, _) => Item::Lit(*c, LitStyle::Verbatim),
                        Item::Nested(c) => Item::Nested(c.normalized()),
                        x => x.clone(),
                    })
                    .collect(),
            ),
            CSet::Bin(l, op, r) => {
                let rn = match &**r {
                    // A bracketed right operand is how a nested binary operation is printed.
                    CSet::Bin(..) => CSet::Union(vec![Item::Nested(Class {
                        neg: false,
                        set: r.normalized(),
                    })]),
                    u => u.normalized(),
                };
                CSet::Bin(Box::new(l.normalized()), *op, Box::new(rn))
            }
        }
    }

    pub fn depth(&self) -> usize {
        match self {
            CSet::Union(items) => items
                .iter()
                .map(|it| match it {
                    Item::Nested(c) => c.depth(),
                    _ => 0,
                })
                .max()
                .unwrap_or(0),
            CSet::Bin(l, _, r) => l.depth().max(r.depth()),
        }
    }
}

// ------------------------------------------------------------------------------------------------
// Converter from regex_syntax::ast
// ------------------------------------------------------------------------------------------------

fn lit_style(k: &ast::LiteralKind) -> LitStyle {
    use ast::{HexLiteralKind as H, LiteralKind as K};
    match k {
        K::Verbatim => LitStyle::Verbatim,
        K::Meta | K::Superfluous => LitStyle::Escaped,
        K::Octal => LitStyle::Escaped,
        K::HexFixed(H::X) => LitStyle::Hex2,
        K::HexFixed(H::UnicodeShort) => LitStyle::U4,
        K::HexFixed(H::UnicodeLong) => LitStyle::U8,
        K::HexBrace(H::X) => LitStyle::HexBrace,
        K::HexBrace(_) => LitStyle::UBrace,
        K::Special(_) => LitStyle::Special,
    }
}

fn perl_kind(k: &ast::ClassPerlKind) -> PerlKind {
    match k {
        ast::ClassPerlKind::Digit => PerlKind::Digit,
        ast::ClassPerlKind::Space => PerlKind::Space,
        ast::ClassPerlKind::Word => PerlKind::Word,
    }
}

fn ascii_kind(k: &ast::ClassAsciiKind) -> AsciiKind {
    use ast::ClassAsciiKind as A;
    match k {
        A::Alnum => AsciiKind::Alnum,
        A::Alpha => AsciiKind::Alpha,
        A::Ascii => AsciiKind::Ascii,
        A::Blank => AsciiKind::Blank,
        A::Cntrl => AsciiKind::Cntrl,
        A::Digit => AsciiKind::Digit,
        A::Graph => AsciiKind::Graph,
        A::Lower => AsciiKind::Lower,
        A::Print => AsciiKind::Print,
        A::Punct => AsciiKind::Punct,
        A::Space => AsciiKind::Space,
        A::Upper => AsciiKind::Upper,
        A::Word => AsciiKind::Word,
        A::Xdigit => AsciiKind::Xdigit,
    }
}

fn uni_from(u: &ast::ClassUnicode) -> Result<(String, bool), String> {
    match &u.kind {
        ast::ClassUnicodeKind::OneLetter(c) => Ok((c.to_string(), u.negated)),
        ast::ClassUnicodeKind::Named(n) => Ok((n.clone(), u.negated)),
        ast::ClassUnicodeKind::NamedValue { .. } => Err("named value unicode class".into()),
    }
}

fn item_from(it: &ast::ClassSetItem, out: &mut Vec<Item>) -> Result<(), String> {
    use ast::ClassSetItem as I;
    match it {
        I::Empty(_) => {}
        I::Literal(l) => {
            if l.c == '.' && matches!(l.kind, ast::LiteralKind::Verbatim) {
                out.push(Item::DotVerbatim)
            } else {
                out.push(Item::Lit(l.c, lit_style(&l.kind)))
            }
        }
        I::Range(r) => out.push(Item::Range(r.start.c, r.end.c)),
        I::Ascii(a) => out.push(Item::Ascii(ascii_kind(&a.kind), a.negated)),
        I::Unicode(u) => {
            let (n, neg) = uni_from(u)?;
            out.push(Item::Uni(n, neg))
        }
        I::Perl(p) => out.push(Item::Perl(perl_kind(&p.kind), p.negated)),
        I::Bracketed(b) => out.push(Item::Nested(class_from(b)?)),
        I::Union(u) => {
            for x in &u.items {
                item_from(x, out)?;
            }
        }
    }
    Ok(())
}

fn cset_from(s: &ast::ClassSet) -> Result<CSet, String> {
    match s {
        ast::ClassSet::Item(it) => {
            let mut v = Vec::new();
            item_from(it, &mut v)?;
            Ok(CSet::Union(v))
        }
        ast::ClassSet::BinaryOp(b) => {
            let op = match b.kind {
                ast::ClassSetBinaryOpKind::Intersection => BinOp::Inter,
                ast::ClassSetBinaryOpKind::Difference => BinOp::Diff,
                ast::ClassSetBinaryOpKind::SymmetricDifference => BinOp::SymDiff,
            };
            Ok(CSet::Bin(
                Box::new(cset_from(&b.lhs)?),
                op,
                Box::new(cset_from(&b.rhs)?),
            ))
        }
    }
}

pub fn class_from(b: &ast::ClassBracketed) -> Result<Class, String> {
    Ok(Class {
        neg: b.negated,
        set: cset_from(&b.kind)?,
    })
}

/// Converts a parsed regex into IR. Fails for everything scnr documents as unsupported.
pub fn re_from_ast(a: &ast::Ast) -> Result<Re, String> {
    use ast::Ast as A;
    Ok(match a {
        A::Empty(_) => Re::Empty,
        A::Flags(_) => return Err("flags".into()),
        A::Literal(l) => Re::Lit(l.c, lit_style(&l.kind)),
        A::Dot(_) => Re::Dot,
        A::Assertion(_) => return Err("assertion".into()),
        A::ClassUnicode(u) => {
            let (n, neg) = uni_from(u)?;
            Re::Uni(n, neg)
        }
        A::ClassPerl(p) => Re::Perl(perl_kind(&p.kind), p.negated),
        A::ClassBracketed(b) => Re::Class(class_from(b)?),
        A::Repetition(r) => {
            if !r.greedy {
                return Err("non-greedy".into());
            }
            let x = Box::new(re_from_ast(&r.ast)?);
            match &r.op.kind {
                ast::RepetitionKind::ZeroOrOne => Re::Opt(x),
                ast::RepetitionKind::ZeroOrMore => Re::Star(x),
                ast::RepetitionKind::OneOrMore => Re::Plus(x),
                ast::RepetitionKind::Range(rr) => match rr {
                    ast::RepetitionRange::Exactly(m) => Re::Rep(x, *m, RepMax::Exactly),
                    ast::RepetitionRange::AtLeast(m) => Re::Rep(x, *m, RepMax::AtLeast),
                    ast::RepetitionRange::Bounded(m, n) => Re::Rep(x, *m, RepMax::Bounded(*n)),
                },
            }
        }
        A::Group(g) => {
            let k = match &g.kind {
                ast::GroupKind::CaptureIndex(_) => GroupKind::Capture,
                ast::GroupKind::CaptureName { name, .. } => GroupKind::Named(name.name.clone()),
                ast::GroupKind::NonCapturing(f) => {
                    if !f.items.is_empty() {
                        return Err("flags in group".into());
                    }
                    GroupKind::NonCapture
                }
            };
            Re::Group(k, Box::new(re_from_ast(&g.ast)?))
        }
        A::Alternation(x) => Re::Alt(
            x.asts
                .iter()
                .map(re_from_ast)
                .collect::<Result<Vec<_>, _>>()?,
        ),
        A::Concat(x) => Re::Cat(
            x.asts
                .iter()
                .map(re_from_ast)
                .collect::<Result<Vec<_>, _>>()?,
        ),
    })
}

pub fn parse_to_ir(pattern: &str) -> Result<Re, String> {
    let a = ast::parse::Parser::new()
        .parse(pattern)
        .map_err(|e| format!("parse error: {}", e))?;
    re_from_ast(&a)
}

/// Sanity guard: the printed syntax of `re` parses back to the same structure.
pub fn print_parse_roundtrip_ok(re: &Re) -> bool {
    match parse_to_ir(&re.to_syntax()) {
        Ok(back) => back.normalized() == re.normalized(),
        Err(_) => false,
    }
}
