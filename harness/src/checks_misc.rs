//! C15 (unsupported features rejected, build total) and C16 (serialization).
use crate::cfg::*;
use crate::gen::*;
use crate::hist::gen_multi_mode;
use crate::ir::*;
use crate::monitor::*;
use crate::refsem::RefPattern;
use crate::rng::Rng;
use crate::wf::*;
use regex_syntax::ast;
use serde_json::{json, Value};

// ------------------------------------------------------------------------------------------------
// C15
// ------------------------------------------------------------------------------------------------

const SOUP: &[&str] = &[
    "a", "b", "c", "é", ".", "\\d", "\\w", "\\s", "\\D", "\\pL", "\\p{Alphabetic}", "\\p{Nope}",
    "\\PN", "[", "]", "[^", "-", "(", ")", "(?:", "(?P<n>", "(?i)", "(?i:", "(?=", "(?!", "(?<=",
    "(?<!", "|", "*", "+", "?", "*?", "+?", "{2}", "{1,3}", "{2,}", "{0}", "{3,1}", "{,2}", "^",
    "$", "\\b", "\\B", "\\A", "\\z", "\\\\", "\\n", "\\x41", "\\u{1F600}", "\\u{110000}", "&&",
    "--", "~~", "[:alpha:]", "[:^digit:]", "\\1", "{", "}", ",", "0", "1", "9", "#", "~", "&",
    "\"", "'", " ", "\\", "\\p{sc=Greek}", "\\b{start}", "\\<", "(?x)", "(?-", ":", "<", ">", "=",
    "!", "\\Q", "\\pX", "\\x", "\\u", "[a-c]", "[^a]", "[a&&b]", "(a|b)", "a{2}", "\\.",
    "\0", "\u{7f}", "\u{80}", "\\x00", "\\u{D800}", "\\x{10FFFF}", "\\U0010FFFF", "[\\x00-\\x{10FFFF}]",
    "[z-a]", "(?u)", "(?s)", "(?m)", "(?U)", "(?R)", "\\G", "\\K", "(?#c)", "(?<n>", "\\k<n>", "\\C", "\\X",
    "(?u:", "(?-u:", "\\p{^L}", "\\p{L}", "[[:word:]]", "[\\d-z]", "\\-", "\\ ",
];

fn soup_string(rng: &mut Rng) -> String {
    // now and then the empty string (as a pattern or as a lookahead pattern)
    if rng.chance(1, 60) {
        return String::new();
    }
    let n = rng.range(1, 12);
    let mut s = String::new();
    for _ in 0..n {
        let t = SOUP[rng.below(SOUP.len())];
        if s.len() + t.len() > 40 {
            break;
        }
        s.push_str(t);
    }
    s
}

/// Product of all repetition counts written in the string (a bound on the automaton size).
fn count_product(s: &str) -> u64 {
    let mut prod: u64 = 1;
    let b = s.as_bytes();
    let mut i = 0;
    while i < b.len() {
        if b[i] == b'{' {
            let mut j = i + 1;
            let mut maxn: u64 = 0;
            let mut cur: u64 = 0;
            let mut any = false;
            while j < b.len() && (b[j].is_ascii_digit() || b[j] == b',') {
                if b[j].is_ascii_digit() {
                    cur = cur.saturating_mul(10).saturating_add((b[j] - b'0') as u64);
                    any = true;
                } else {
                    maxn = maxn.max(cur);
                    cur = 0;
                }
                j += 1;
            }
            maxn = maxn.max(cur);
            if any {
                prod = prod.saturating_mul(maxn.max(1));
            }
            i = j;
        } else {
            i += 1;
        }
    }
    prod
}

fn build_both(modes: &[scnr::ScannerMode]) -> Result<(bool, bool, String), String> {
    // returns (uncached ok, cached ok, error text)
    let r1 = sut(|| {
        scnr::ScannerBuilder::new()
            .add_scanner_modes(modes)
            .build_uncached()
            .map(|_| ())
            .map_err(|e| e.to_string())
    })
    .map_err(|p| format!("build_uncached panicked: {}", p))?;
    let r2 = sut(|| {
        scnr::ScannerBuilder::new()
            .add_scanner_modes(modes)
            .build()
            .map(|_| ())
            .map_err(|e| e.to_string())
    })
    .map_err(|p| format!("build panicked: {}", p))?;
    let err = r1.clone().err().or(r2.clone().err()).unwrap_or_default();
    Ok((r1.is_ok(), r2.is_ok(), err))
}

/// Places a pattern string at a random position of a small configuration: as a pattern or as a
/// lookahead, in the first or a later pattern, in the first or a later mode.
fn place(rng: &mut Rng, text: &str, st: &mut Stats) -> Vec<scnr::ScannerMode> {
    place_with(rng, text, st, false)
}

/// `huge_token_types`: only in worker processes (a build that tries to allocate by token type number
/// ends in an abort, which must be attributed to its case).
fn place_with(rng: &mut Rng, text: &str, st: &mut Stats, huge_token_types: bool) -> Vec<scnr::ScannerMode> {
    let n_modes = rng.range(1, 3);
    let target_mode = rng.below(n_modes);
    let as_lookahead = rng.chance(1, 3);
    // now and then all modes carry the same name (nothing forbids it; a mode must be examined
    // whatever it is called)
    let same_names = n_modes > 1 && rng.chance(1, 5);
    // token type numbers are arbitrary usize values: now and then huge ones (building must stay total)
    let tt_base = if huge_token_types && rng.chance(1, 6) { *rng.pick(&[usize::MAX - 8, usize::MAX / 2, (1usize << 32) + 1]) } else { 0 };
    if tt_base > 0 {
        st.count("placed_among_patterns_with_huge_token_types");
    }
    if same_names && target_mode > 0 {
        st.count("placed_in_a_later_mode_that_repeats_an_earlier_name");
    }
    let mut modes = Vec::new();
    for mi in 0..n_modes {
        let n_pats = rng.range(1, 3);
        let target_pat = rng.below(n_pats);
        let mut pats = Vec::new();
        for pi in 0..n_pats {
            let plain = ["a", "b+", "[a-c]", "x|y"][rng.below(4)];
            if mi == target_mode && pi == target_pat {
                if as_lookahead {
                    st.count("placed_in_lookahead");
                    pats.push(
                        scnr::Pattern::new(plain.to_string(), tt_base + pi).with_lookahead(
                            scnr::Lookahead::new(rng.chance(1, 2), text.to_string()),
                        ),
                    );
                    // now and then a later pattern of the same token type carries a (valid)
                    // lookahead as well: every lookahead string must be examined all the same
                    if rng.chance(1, 5) {
                        st.count("placed_in_lookahead_before_a_pattern_of_the_same_token_type");
                        pats.push(
                            scnr::Pattern::new("c".to_string(), tt_base + pi)
                                .with_lookahead(scnr::Lookahead::new(rng.chance(1, 2), "d".to_string())),
                        );
                    }
                } else {
                    pats.push(scnr::Pattern::new(text.to_string(), tt_base + pi));
                }
                if pi > 0 {
                    st.count("placed_in_later_pattern");
                }
                if mi > 0 {
                    st.count("placed_in_non_first_mode");
                }
            } else {
                pats.push(scnr::Pattern::new(plain.to_string(), tt_base + pi));
            }
        }
        modes.push(scnr::ScannerMode::new(
            &(if same_names { "M".to_string() } else { format!("M{}", mi) }),
            pats,
            Vec::<(usize, usize)>::new(),
        ));
    }
    modes
}

pub fn c15_soup_case(rng: &mut Rng, _i: u64, st: &mut Stats) -> CaseOutcome {
    let text = soup_string(rng);
    if count_product(&text) > 4096 {
        return CaseOutcome::Skipped;
    }
    let parses = ast::parse::Parser::new().parse(&text).is_ok();
    if parses {
        st.count("soup_parses");
    }
    let modes = place_with(rng, &text, st, true);
    st.count("soup_builds");
    let case = json!({"kind": "c15", "pattern_text": text, "modes": modes});
    match build_both(&modes) {
        Err(p) => CaseOutcome::Violated(Violation::new(
            format!("{} for pattern text {:?}", p, text),
            case,
        )),
        Ok((u, c, err)) => {
            if u != c {
                return CaseOutcome::Violated(Violation::new(
                    format!(
                        "build_uncached {} but build {} for pattern text {:?} ({})",
                        if u { "succeeds" } else { "fails" },
                        if c { "succeeds" } else { "fails" },
                        text,
                        err
                    ),
                    case,
                ));
            }
            if u {
                st.count("soup_built_ok");
            } else {
                st.count("soup_rejected");
            }
            if !parses && u {
                return CaseOutcome::Violated(Violation::new(
                    format!("a pattern with a syntax error builds: {:?}", text),
                    case,
                ));
            }
            st.nontrivial(hash_of(&text));
            st.sample(json!({"soup": text, "built": u}));
            CaseOutcome::Ok
        }
    }
}

/// (category, fragment) of constructs documented as unsupported, and syntax errors.
const PLANTS: &[(&str, &str)] = &[
    ("anchor", "^"),
    ("anchor", "$"),
    ("anchor", "\\A"),
    ("anchor", "\\z"),
    ("word_boundary", "\\b"),
    ("word_boundary", "\\B"),
    ("word_boundary", "\\b{start}"),
    ("word_boundary", "\\b{end}"),
    ("word_boundary", "\\b{start-half}"),
    ("word_boundary", "\\<"),
    ("word_boundary", "\\>"),
    ("flags", "(?i)"),
    ("flags", "(?s)"),
    ("flags", "(?x)"),
    ("flags", "(?U)"),
    ("flags", "(?i:a)"),
    ("flags", "(?-i:a)"),
    ("flags", "(?m:a|b)"),
    ("flags", "(?is-m:a)"),
    ("non_greedy", "a*?"),
    ("non_greedy", "a+?"),
    ("non_greedy", "a??"),
    ("non_greedy", "a{1,2}?"),
    ("non_greedy", "a{2}?"),
    ("non_greedy", "a{1,}?"),
    ("non_greedy", "(ab)*?"),
    ("look_around", "(?=a)"),
    ("look_around", "(?!a)"),
    ("look_around", "(?<=a)"),
    ("look_around", "(?<!a)"),
    ("unicode_class", "\\p{NoSuchProperty}"),
    ("unicode_class", "\\P{Xyzzy}"),
    ("unicode_class", "\\pX"),
    ("unicode_class", "\\PQ"),
    ("unicode_class", "\\p{sc=Greek}"),
    ("unicode_class", "\\p{Script:Latin}"),
    ("unicode_class", "\\P{gc!=L}"),
    // known to Unicode and to regex-syntax, but not to the crate's table of classes (general
    // categories and scripts written in braces): "unknown" in the sense of the statement
    ("unicode_class", "\\p{L}"),
    ("unicode_class", "\\P{N}"),
    ("unicode_class", "\\p{P}"),
    ("unicode_class", "\\p{Lu}"),
    ("unicode_class", "\\p{Nd}"),
    ("unicode_class", "\\p{Greek}"),
    ("unicode_class", "\\P{Latin}"),
    ("unicode_class", "\\p{Han}"),
    ("unicode_class", "[_\\p{Lu}]"),
    ("unicode_class", "[a\\p{NoSuchProperty}]"),
    ("unicode_class", "[^\\p{sc=Greek}b]"),
    ("unicode_class", "[a-c&&\\pX]"),
    // set operations with an empty operand: the other operand must be examined all the same
    ("unicode_class", "[&&\\p{Greek}]"),
    ("unicode_class", "[\\p{sc=Latin}&&]"),
    ("unicode_class", "[^&&\\pX]"),
    ("unicode_class", "[a[&&\\p{NoSuchProperty}]]"),
    ("unicode_class", "[--\\p{Lu}]"),
    ("unicode_class", "[\\pX~~]"),
    ("syntax_error", "("),
    ("syntax_error", ")"),
    ("syntax_error", "[a"),
    ("syntax_error", "a{2,1}"),
    ("syntax_error", "\\1"),
    ("syntax_error", "[z-a]"),
    ("syntax_error", "\\"),
    ("syntax_error", "\\x{110000}"),
    ("syntax_error", "(?P<>a)"),
    ("syntax_error", "a{"),
    ("syntax_error", "\\y"),
];

const NONSENSE_UNICODE: &[&str] = &["NoSuchProperty", "Xyzzy", "L", "N", "P", "Lu", "Nd", "Greek", "Latin", "Han"];

/// Does the parsed pattern contain a construct documented as unsupported?
fn ast_has_unsupported(a: &ast::Ast) -> bool {
    use ast::Ast as A;
    fn uni(u: &ast::ClassUnicode) -> bool {
        match &u.kind {
            ast::ClassUnicodeKind::NamedValue { .. } => true,
            ast::ClassUnicodeKind::Named(n) => NONSENSE_UNICODE.contains(&n.as_str()),
            ast::ClassUnicodeKind::OneLetter(c) => matches!(c, 'X' | 'Q'),
        }
    }
    fn item(i: &ast::ClassSetItem) -> bool {
        match i {
            ast::ClassSetItem::Unicode(u) => uni(u),
            ast::ClassSetItem::Bracketed(b) => set(&b.kind),
            ast::ClassSetItem::Union(u) => u.items.iter().any(item),
            _ => false,
        }
    }
    fn set(s: &ast::ClassSet) -> bool {
        match s {
            ast::ClassSet::Item(i) => item(i),
            ast::ClassSet::BinaryOp(b) => set(&b.lhs) || set(&b.rhs),
        }
    }
    match a {
        A::Flags(_) | A::Assertion(_) => true,
        A::ClassUnicode(u) => uni(u),
        A::ClassBracketed(b) => set(&b.kind),
        A::Repetition(r) => !r.greedy || ast_has_unsupported(&r.ast),
        A::Group(g) => {
            let flags = match &g.kind {
                ast::GroupKind::NonCapturing(f) => f
                    .items
                    .iter()
                    .any(|i| matches!(i.kind, ast::FlagsItemKind::Flag(_))),
                _ => false,
            };
            flags || ast_has_unsupported(&g.ast)
        }
        A::Alternation(x) => x.asts.iter().any(ast_has_unsupported),
        A::Concat(x) => x.asts.iter().any(ast_has_unsupported),
        _ => false,
    }
}

/// Replaces one random node at depth >= min_depth by the raw fragment.
fn plant(re: &Re, frag: &str, rng: &mut Rng, depth: usize, planted_depth: &mut Option<usize>) -> Re {
    // choose to plant here with a probability that grows with depth
    let here = planted_depth.is_none() && (rng.chance(1, 4) || !has_children(re));
    if here {
        *planted_depth = Some(depth);
        // the fragment itself, or the fragment under an operator that can make it "optional"
        // (a construct that never has to match must be rejected all the same)
        let raw = Re::Raw(frag.to_string());
        let planted = match rng.below(10) {
            0 => Re::Rep(Box::new(raw), 0, RepMax::Exactly),
            1 => Re::Rep(Box::new(raw), 0, RepMax::Bounded(0)),
            2 => Re::Opt(Box::new(raw)),
            3 => Re::Star(Box::new(raw)),
            4 => Re::Alt(vec![Re::Lit('a', LitStyle::Verbatim), raw]),
            _ => raw,
        };
        // keep the replaced node next to the fragment so that the pattern stays rich
        return if rng.chance(1, 2) {
            Re::Cat(vec![planted, re.clone()])
        } else {
            Re::Cat(vec![re.clone(), planted])
        };
    }
    match re {
        Re::Cat(xs) | Re::Alt(xs) => {
            let k = rng.below(xs.len().max(1));
            let mut ys = xs.clone();
            if !ys.is_empty() {
                ys[k] = plant(&xs[k], frag, rng, depth + 1, planted_depth);
            }
            if matches!(re, Re::Cat(_)) {
                Re::Cat(ys)
            } else {
                Re::Alt(ys)
            }
        }
        Re::Star(x) => Re::Star(Box::new(plant(x, frag, rng, depth + 1, planted_depth))),
        Re::Plus(x) => Re::Plus(Box::new(plant(x, frag, rng, depth + 1, planted_depth))),
        Re::Opt(x) => Re::Opt(Box::new(plant(x, frag, rng, depth + 1, planted_depth))),
        Re::Rep(x, m, n) => Re::Rep(Box::new(plant(x, frag, rng, depth + 1, planted_depth)), *m, *n),
        Re::Group(k, x) => Re::Group(k.clone(), Box::new(plant(x, frag, rng, depth + 1, planted_depth))),
        other => other.clone(),
    }
}

fn has_children(re: &Re) -> bool {
    matches!(
        re,
        Re::Cat(_) | Re::Alt(_) | Re::Star(_) | Re::Plus(_) | Re::Opt(_) | Re::Rep(..) | Re::Group(..)
    )
}

/// Valued forms of SUPPORTED class names, to be rejected also when the supported form of the same
/// name occurs earlier in the same scanner (the class registry is shared by all modes).
const SHADOWED: &[(&str, &str)] = &[
    ("\\p{Alphabetic}", "\\p{Alphabetic=No}"),
    ("\\p{Alphabetic}", "\\p{Alphabetic=Yes}"),
    ("\\p{Lowercase}", "\\p{Lowercase:Yes}"),
    ("\\P{White_Space}", "\\P{White_Space=No}"),
    ("\\p{Math}", "\\p{Math!=Yes}"),
    ("\\p{XID_Start}", "\\p{XID_Start=True}"),
];

pub fn c15_shadowed_case(rng: &mut Rng, st: &mut Stats) -> CaseOutcome {
    let (supported, unsupported) = SHADOWED[rng.below(SHADOWED.len())];
    // supported first, unsupported later: same pattern, later pattern, later mode, or lookahead
    let layout = rng.below(4);
    let modes: Vec<scnr::ScannerMode> = match layout {
        0 => vec![scnr::ScannerMode::new("A", vec![scnr::Pattern::new(format!("{}+x{}", supported, unsupported), 0)], Vec::<(usize, usize)>::new())],
        1 => vec![scnr::ScannerMode::new(
            "A",
            vec![scnr::Pattern::new(format!("{}+", supported), 0), scnr::Pattern::new(format!("(a|{})*", unsupported), 1)],
            Vec::<(usize, usize)>::new(),
        )],
        2 => vec![
            scnr::ScannerMode::new("A", vec![scnr::Pattern::new(format!("{}+", supported), 0)], Vec::<(usize, usize)>::new()),
            scnr::ScannerMode::new("B", vec![scnr::Pattern::new("b".into(), 0), scnr::Pattern::new(unsupported.to_string(), 1)], Vec::<(usize, usize)>::new()),
        ],
        _ => vec![scnr::ScannerMode::new(
            "A",
            vec![
                scnr::Pattern::new(format!("{}+", supported), 0),
                scnr::Pattern::new("a".into(), 1).with_lookahead(scnr::Lookahead::new(rng.chance(1, 2), unsupported.to_string())),
            ],
            Vec::<(usize, usize)>::new(),
        )],
    };
    st.count("planted_valued_class_after_supported_class_of_same_name");
    let case = json!({"kind": "c15", "supported": supported, "unsupported": unsupported, "layout": layout, "modes": modes});
    match build_both(&modes) {
        Err(pm) => CaseOutcome::Violated(Violation::new(pm, case)),
        Ok((u, c, _)) => {
            if u || c {
                return CaseOutcome::Violated(Violation::new(
                    format!(
                        "the valued Unicode class {} builds when the supported class {} occurs earlier in the same scanner (layout {}; build_uncached ok: {}, build ok: {})",
                        unsupported, supported, layout, u, c
                    ),
                    case,
                ));
            }
            st.nontrivial(hash_of(&(supported, unsupported, layout)));
            CaseOutcome::Ok
        }
    }
}

/// Look-around text right after a valid configuration that LOOKS the same when printed: pattern P
/// with Lookahead(+/-, L) is built through the cache first; then the same configuration with that
/// pattern written as the plain text the crate's own Display gives for it (`P(?=L)` / `P(?!L)`) and no
/// lookahead. The second one contains look-around syntax and must be rejected by both build paths,
/// whatever was built before.
pub fn c15_display_twin_case(rng: &mut Rng, _i: u64, st: &mut Stats) -> CaseOutcome {
    let mut p = GenParams::varied(rng);
    p.max_nodes = 6;
    let cfg = crate::hist::gen_multi_mode(rng, &p, 60, 3);
    if !cfg.all_res().iter().all(|r| print_parse_roundtrip_ok(r)) {
        return CaseOutcome::Skipped;
    }
    // a pattern with a lookahead
    let mut site = None;
    for (mi, m) in cfg.modes.iter().enumerate() {
        for (pi, pat) in m.pats.iter().enumerate() {
            if pat.la.is_some() && (site.is_none() || rng.chance(1, 3)) {
                site = Some((mi, pi));
            }
        }
    }
    let Some((mi, pi)) = site else { return CaseOutcome::Skipped };
    let modes = cfg.to_modes();
    let shown = format!("{}", crate::cfg::pattern_of(&cfg.modes[mi].pats[pi]));
    if !(shown.contains("(?=") || shown.contains("(?!")) {
        // the crate prints lookaheads in another way: no look-around text to test with
        st.count("display_without_look_around_syntax");
        return CaseOutcome::Skipped;
    }
    let mut twin_modes = Vec::new();
    for (k, m) in cfg.modes.iter().enumerate() {
        let pats: Vec<scnr::Pattern> = m
            .pats
            .iter()
            .enumerate()
            .map(|(j, q)| if k == mi && j == pi { scnr::Pattern::new(shown.clone(), q.tt) } else { crate::cfg::pattern_of(q) })
            .collect();
        twin_modes.push(scnr::ScannerMode::new(&m.name, pats, m.trans.clone()));
    }
    let case = json!({"kind": "c15", "valid_configuration": cfg.describe(), "then_pattern_text": shown, "mode": mi, "pattern": pi});
    // the valid one first, through the cache
    match sut(|| scnr::ScannerBuilder::new().add_scanner_modes(&modes).build().map(|_| ()).map_err(|e| e.to_string())) {
        Err(pm) => return CaseOutcome::Violated(Violation::new(format!("build panicked: {}", pm), case)),
        Ok(Err(e)) => return CaseOutcome::Violated(Violation::new(format!("a configuration made only of supported constructs does not build: {}", e), case)),
        Ok(Ok(())) => {}
    }
    st.count("look_around_text_after_equal_looking_valid_configuration");
    match build_both(&twin_modes) {
        Err(pm) => CaseOutcome::Violated(Violation::new(pm, case)),
        Ok((u, c, _)) => {
            if u || c {
                return CaseOutcome::Violated(Violation::new(
                    format!(
                        "the pattern text {:?} contains look-around syntax but builds (build_uncached ok: {}, build ok: {}) after a configuration with the pattern {:?} and a separate lookahead was built",
                        shown, u, c, cfg.modes[mi].pats[pi].re.to_syntax()
                    ),
                    case,
                ));
            }
            st.nontrivial(hash_of(&(&shown, mi, pi)));
            CaseOutcome::Ok
        }
    }
}

pub fn c15_planted_case(rng: &mut Rng, _i: u64, st: &mut Stats) -> CaseOutcome {
    if rng.chance(1, 12) {
        return c15_shadowed_case(rng, st);
    }
    let mut p = GenParams::varied(rng);
    p.allow_empty_alt = false;
    let base = gen_re(rng, &p);
    let (cat, frag) = PLANTS[rng.below(PLANTS.len())];
    let mut depth = None;
    let planted = plant(&base, frag, rng, 0, &mut depth);
    let text = planted.to_syntax();
    // guard: after embedding, the text must still be what was intended
    let intended = match ast::parse::Parser::new().parse(&text) {
        Err(_) => true,
        Ok(a) => ast_has_unsupported(&a),
    };
    if !intended {
        st.count("harness_guard_plant_lost");
        return CaseOutcome::Skipped;
    }
    let depth = depth.unwrap_or(0);
    st.count(&format!("planted_{}", cat));
    if depth >= 2 {
        st.count(&format!("planted_{}_at_depth_ge2", cat));
    }
    let before_la = st.get("placed_in_lookahead");
    let modes = place(rng, &text, st);
    if st.get("placed_in_lookahead") > before_la {
        st.count(&format!("planted_{}_in_lookahead", cat));
    }
    let case = json!({"kind": "c15", "pattern_text": text, "planted": frag, "category": cat, "modes": modes});
    match build_both(&modes) {
        Err(pm) => CaseOutcome::Violated(Violation::new(format!("{} for pattern {:?}", pm, text), case)),
        Ok((u, c, _)) => {
            if u || c {
                return CaseOutcome::Violated(Violation::new(
                    format!(
                        "a configuration containing the unsupported construct {:?} ({}) builds (build_uncached ok: {}, build ok: {}); pattern text {:?}",
                        frag, cat, u, c, text
                    ),
                    case,
                ));
            }
            st.nontrivial(hash_of(&(&text, format!("{:?}", modes))));
            st.sample(json!({"planted": frag, "pattern": text}));
            CaseOutcome::Ok
        }
    }
}

const SUPPORTED_UNICODE: &[&str] = &["L", "N", "Z", "P", "C", "Alphabetic", "Lowercase", "Uppercase", "White_Space", "XID_Start", "XID_Continue", "Math", "Dash", "Hex_Digit"];

fn gen_rich_class(rng: &mut Rng, depth: usize) -> Class {
    let n = rng.range(1, 3);
    let mut items = Vec::new();
    for _ in 0..n {
        items.push(match rng.below(8) {
            0 => Item::Lit(*rng.pick(&['a', 'é', '-', ']', '^', '\\', '&', '~', '.']), LitStyle::Verbatim),
            1 => Item::Range('a', *rng.pick(&['c', 'z', 'é'])),
            2 => Item::Perl(*rng.pick(&[PerlKind::Digit, PerlKind::Space, PerlKind::Word]), rng.chance(1, 2)),
            3 => Item::Ascii(ASCII_KINDS[rng.below(ASCII_KINDS.len())], rng.chance(1, 3)),
            4 if depth < 2 => Item::Nested(gen_rich_class(rng, depth + 1)),
            5 => Item::DotVerbatim,
            _ => Item::Lit(*rng.pick(&['b', 'c', '€']), LitStyle::Verbatim),
        });
    }
    let set = if rng.chance(1, 3) && depth < 2 {
        CSet::Bin(
            Box::new(CSet::Union(items)),
            *rng.pick(&[BinOp::Inter, BinOp::Diff, BinOp::SymDiff]),
            Box::new(CSet::Union(vec![Item::Nested(gen_rich_class(rng, depth + 1))])),
        )
    } else {
        CSet::Union(items)
    };
    Class { neg: rng.chance(1, 3), set }
}

pub fn c15_supported_case(rng: &mut Rng, _i: u64, st: &mut Stats) -> CaseOutcome {
    let p = GenParams::varied(rng);
    let mut re = gen_re(rng, &p);
    // decorate with richer classes
    if rng.chance(1, 2) {
        re = Re::Cat(vec![re, Re::Class(gen_rich_class(rng, 0))]);
        st.count("supported_with_rich_class");
    }
    let mut only_always_supported = true;
    if rng.chance(1, 5) {
        let name = SUPPORTED_UNICODE[rng.below(SUPPORTED_UNICODE.len())];
        re = Re::Alt(vec![re, Re::Uni(name.to_string(), rng.chance(1, 3))]);
        st.count("supported_with_unicode_class");
        only_always_supported = false;
    }
    // deep nesting: groups, repetitions of groups, alternations and bracketed classes inside each
    // other, 10 to 100 levels (the parser's own limit is 250 levels, far above): "groups,
    // alternation, concatenation and greedy repetitions always build"
    let mut deep_text: Option<String> = None;
    if rng.chance(1, 8) {
        let budget = *rng.pick(&[12usize, 21, 25, 33, 40, 64, 65, 100, 129, 200]);
        let mut cost = 0usize;
        let mut levels = 0usize;
        if rng.chance(1, 4) {
            // nested bracketed classes [a[b[c...]]]
            let d = budget.min(120);
            let mut t = String::new();
            for k in 0..d {
                t.push('[');
                t.push((b'a' + (k % 5) as u8) as char);
            }
            for _ in 0..d {
                t.push(']');
            }
            levels = d;
            deep_text = Some(t);
        } else {
            let mut x = Re::Lit('a', LitStyle::Verbatim);
            while cost < budget {
                let (wrapped, c) = match rng.below(5) {
                    0 => (Re::Group(GroupKind::Capture, Box::new(x)), 1),
                    1 => (Re::Group(GroupKind::NonCapture, Box::new(x)), 1),
                    2 => (Re::Plus(Box::new(Re::Group(GroupKind::NonCapture, Box::new(x)))), 2),
                    3 => (Re::Group(GroupKind::NonCapture, Box::new(Re::Alt(vec![x, Re::Lit('b', LitStyle::Verbatim)]))), 2),
                    _ => (Re::Opt(Box::new(Re::Group(GroupKind::Capture, Box::new(x)))), 2),
                };
                x = wrapped;
                cost += c;
                levels += 1;
            }
            re = x;
        }
        st.count("supported_deeply_nested");
        if levels > 20 {
            st.count("supported_nested_deeper_than_20");
        }
        if cost > 100 || levels > 100 {
            st.count("supported_nested_deeper_than_100_parser_levels");
        }
    }
    if deep_text.is_none() && !print_parse_roundtrip_ok(&re) {
        st.count("harness_guard_print_parse_mismatch");
        return CaseOutcome::Skipped;
    }
    let text = deep_text.unwrap_or_else(|| re.to_syntax());
    let modes = place(rng, &text, st);
    let case = json!({"kind": "c15", "pattern_text": text, "modes": modes});
    st.count("supported_builds");
    match build_both(&modes) {
        Err(pm) => CaseOutcome::Violated(Violation::new(format!("{} for pattern {:?}", pm, text), case)),
        Ok((u, c, err)) => {
            if !(u && c) {
                return CaseOutcome::Violated(Violation::new(
                    format!(
                        "a pattern made only of {} is rejected: {:?} ({})",
                        if only_always_supported { "always supported constructs" } else { "supported constructs and a supported Unicode class" },
                        text, err
                    ),
                    case,
                ));
            }
            st.nontrivial(hash_of(&text));
            CaseOutcome::Ok
        }
    }
}

pub fn c15(tier: Tier) -> i32 {
    let ctx = Ctx::new("C15", tier, "exploration");
    let mut res = RunResult::new();
    let n_soup = ctx.scale(24_000, 2_000_000);
    res.merge(run_cases_subprocess(&ctx, 1, n_soup, if tier == Tier::Quick { 1500 } else { 20_000 }));
    let n_planted = ctx.scale(30_000, 2_000_000);
    res.merge(run_cases(&ctx, 2, n_planted, |rng, i, st| c15_planted_case(rng, i, st)));
    let n_sup = ctx.scale(15_000, 1_000_000);
    res.merge(run_cases(&ctx, 3, n_sup, |rng, i, st| c15_supported_case(rng, i, st)));
    // stream 5: look-around text right after an equal-looking valid configuration
    let n_twin = ctx.scale(3_000, 200_000);
    // (in worker processes: its configurations carry arbitrary token type numbers, and a build that
    // allocates by token type number ends in an abort that must be attributed to its case)
    res.merge(run_cases_subprocess(&ctx, 5, n_twin, if tier == Tier::Quick { 400 } else { 10_000 }));
    // stream 4: the repository's own classification (match_test.rs): tu!/tr! rows must be
    // rejected, td! rows must build, through both build paths
    {
        let (rows, _) = crate::corpus::match_test_rows();
        let n = rows.len() as u64;
        res.merge(run_cases(&ctx, 4, n, |_rng, i, st| {
            let row = &rows[i as usize];
            let modes = vec![scnr::ScannerMode::new("M", vec![scnr::Pattern::new(row.pattern.clone(), 1)], Vec::<(usize, usize)>::new())];
            let case = json!({"kind": "c15", "pattern_text": row.pattern, "row_kind": format!("{:?}", row.kind)});
            st.count("repository_rows_built");
            match build_both(&modes) {
                Err(pm) => CaseOutcome::Violated(Violation::new(format!("{} for pattern {:?}", pm, row.pattern), case)),
                Ok((u, c, err)) => {
                    let must_build = row.kind == crate::corpus::RowKind::Valid;
                    if u != c || u != must_build {
                        return CaseOutcome::Violated(Violation::new(
                            format!(
                                "repository row {:?} ({:?}): build_uncached ok = {}, build ok = {}, expected {} ({})",
                                row.pattern, row.kind, u, c, must_build, err
                            ),
                            case,
                        ));
                    }
                    st.nontrivial(hash_of(&row.pattern));
                    CaseOutcome::Ok
                }
            }
        }));
    }
    let mut report = Report::new(
        "stream 5: a valid configuration with a pattern P and a separate lookahead is built through the cache, then the same configuration with that pattern written as the text the crate's Display gives for it (P(?=L) / P(?!L), look-around syntax) must be rejected by both build paths; stream 4: every row of the repository's tests/match_test.rs (td! must build, tu!/tr! must be rejected); stream 1 (in worker subprocesses, so that an abort or stack overflow is observed and attributed): token-level random strings over the regex meta-alphabet (<= 40 bytes, repetition counts with product <= 4096), placed as pattern or lookahead in the first/a later pattern of the first/a later mode; neither build nor build_uncached may panic, both must agree, and a string regex-syntax rejects must not build. stream 2: supported IR with one documented-unsupported construct (anchors, word boundaries, flags, non-greedy repetition, look-around, unknown/valued Unicode classes, syntax errors) planted at a random depth; must be rejected by both build paths (guard: the planted text must still parse to the intended unsupported node or be a syntax error). stream 3: supported-only IR incl. rich bracketed classes must build. Distinct by hash of the pattern text/configuration.",
    )
    .floor("soup_builds", 20_000)
    .floor("soup_parses", 2_000)
    .floor("supported_builds", 10_000)
    .floor("repository_rows_built", 300)
    .floor("placed_in_lookahead", 5_000)
    .floor("placed_in_non_first_mode", 5_000)
    .floor("planted_valued_class_after_supported_class_of_same_name", 500)
    .floor("placed_in_lookahead_before_a_pattern_of_the_same_token_type", 1_000)
    .assume("repetition counts are bounded (product <= 4096): unbounded counts are resource exhaustion, not a panic")
    .assume("regex-syntax decides what a syntax error is");
    for cat in ["anchor", "word_boundary", "flags", "non_greedy", "look_around", "unicode_class", "syntax_error"] {
        let k: &'static str = Box::leak(format!("planted_{}_at_depth_ge2", cat).into_boxed_str());
        report = report.floor(k, 200);
        let k2: &'static str = Box::leak(format!("planted_{}_in_lookahead", cat).into_boxed_str());
        report = report.floor(k2, 100);
    }
    finish(&ctx, res, report)
}

// ------------------------------------------------------------------------------------------------
// C16
// ------------------------------------------------------------------------------------------------

fn nasty_string(rng: &mut Rng) -> String {
    let pieces = ["\"", "\\", "\n", "\t", "\u{7f}", "\u{0}", "\u{1f}", "é", "😀", "a", "b", "/", "{", "}", "[", "]", ":", ",", "\u{2028}", "\\u0041", " "];
    let n = rng.below(8);
    (0..n).map(|_| pieces[rng.below(pieces.len())]).collect()
}

/// Independent writer of the JSON layout shown in the README.
fn readme_layout(cfg: &[(String, Vec<(String, usize, Option<(bool, String)>)>, Vec<(usize, usize)>)]) -> String {
    fn esc(s: &str) -> String {
        let mut o = String::from("\"");
        for c in s.chars() {
            match c {
                '"' => o.push_str("\\\""),
                '\\' => o.push_str("\\\\"),
                '\n' => o.push_str("\\n"),
                '\r' => o.push_str("\\r"),
                '\t' => o.push_str("\\t"),
                c if (c as u32) < 0x20 => o.push_str(&format!("\\u{:04x}", c as u32)),
                c => o.push(c),
            }
        }
        o.push('"');
        o
    }
    let mut out = String::from("[\n");
    for (mi, (name, pats, trans)) in cfg.iter().enumerate() {
        out.push_str("  {\n");
        out.push_str(&format!("    \"name\": {},\n", esc(name)));
        out.push_str("    \"patterns\": [\n");
        for (pi, (pat, tt, la)) in pats.iter().enumerate() {
            out.push_str(&format!("      {{ \"pattern\": {}, \"token_type\": {}", esc(pat), tt));
            if let Some((pos, lp)) = la {
                out.push_str(&format!(
                    ",\n        \"lookahead\": {{ \"is_positive\": {}, \"pattern\": {} }}",
                    pos,
                    esc(lp)
                ));
            }
            out.push_str(if pi + 1 < pats.len() { "},\n" } else { "}\n" });
        }
        out.push_str("    ],\n");
        out.push_str("    \"transitions\": [");
        for (ti, (t, m)) in trans.iter().enumerate() {
            out.push_str(&format!("[{}, {}]", t, m));
            if ti + 1 < trans.len() {
                out.push_str(", ");
            }
        }
        out.push_str("]\n");
        out.push_str(if mi + 1 < cfg.len() { "  },\n" } else { "  }\n" });
    }
    out.push_str("]\n");
    out
}

type PlainCfg = Vec<(String, Vec<(String, usize, Option<(bool, String)>)>, Vec<(usize, usize)>)>;

fn to_modes(plain: &PlainCfg) -> Vec<scnr::ScannerMode> {
    plain
        .iter()
        .map(|(name, pats, trans)| {
            scnr::ScannerMode::new(
                name,
                pats.iter()
                    .map(|(p, tt, la)| {
                        let pat = scnr::Pattern::new(p.clone(), *tt);
                        match la {
                            None => pat,
                            Some((pos, lp)) => pat.with_lookahead(scnr::Lookahead::new(*pos, lp.clone())),
                        }
                    })
                    .collect::<Vec<_>>(),
                trans.clone(),
            )
        })
        .collect()
}

pub fn c16_case(rng: &mut Rng, _i: u64, st: &mut Stats) -> CaseOutcome {
    // (a) pure data round trip with hostile strings (patterns need not be valid regexes)
    let n_modes = rng.below(4);
    let mut plain: PlainCfg = Vec::new();
    for _ in 0..n_modes {
        let name = if rng.chance(1, 5) { String::new() } else { nasty_string(rng) };
        let n_pats = rng.below(4);
        let mut pats = Vec::new();
        for _ in 0..n_pats {
            let tt = *rng.pick(&[0usize, 1, 7, 65_535, 65_536, u32::MAX as usize, usize::MAX]);
            let la = if rng.chance(1, 3) { Some((rng.chance(1, 2), nasty_string(rng))) } else { None };
            if la.is_none() {
                st.count("absent_lookahead");
            } else {
                st.count("present_lookahead");
            }
            let p = nasty_string(rng);
            if p.contains('"') || p.contains('\\') || p.chars().any(|c| (c as u32) < 0x20) {
                st.count("pattern_needing_json_escapes");
            }
            pats.push((p, tt, la));
        }
        let mut trans: Vec<(usize, usize)> = Vec::new();
        let mut t = 0usize;
        for _ in 0..rng.below(4) {
            t += rng.range(1, 70_000);
            trans.push((t, rng.below(5)));
        }
        // numbers a detour through a float, a 32-bit or a signed type would not survive (as pure
        // data every usize is a legal token type and a legal mode index; sorted, distinct)
        if rng.chance(1, 3) {
            // ascending (the transition list must stay sorted by token type)
            let big = [u32::MAX as usize + 2, (1usize << 53) + 1, (1 << 53) + 3, (1 << 62) + 1, isize::MAX as usize, isize::MAX as usize + 2, usize::MAX - 1, usize::MAX];
            let mut k = rng.below(big.len());
            for _ in 0..rng.range(1, 3) {
                if k < big.len() {
                    trans.push((big[k], *rng.pick(&[0usize, 3, (1 << 53) + 1, u32::MAX as usize + 1, usize::MAX])));
                    k += 1 + rng.below(2);
                }
            }
            st.count("transition_lists_with_numbers_beyond_2_pow_53");
        }
        if trans.is_empty() {
            st.count("empty_transition_list");
        }
        plain.push((name, pats, trans));
    }
    let modes = to_modes(&plain);
    let case = |extra: Value| json!({"kind": "c16", "plain": plain, "extra": extra});
    let r = sut(|| -> Result<(), String> {
        let s = serde_json::to_string(&modes).map_err(|e| format!("to_string failed: {}", e))?;
        let back: Vec<scnr::ScannerMode> =
            serde_json::from_str(&s).map_err(|e| format!("from_str failed on own output {}: {}", s, e))?;
        if back != modes {
            return Err(format!("round trip changed the configuration; json: {}", s));
        }
        st.count("mode_list_roundtrips");
        // README layout written by an independent writer must parse to the same value
        // (token types above u32::MAX are kept out: ids are u32 internally)
        if plain.iter().all(|(_, pats, _)| pats.iter().all(|(_, tt, _)| *tt <= u32::MAX as usize)) {
            let txt = readme_layout(&plain);
            let parsed: Vec<scnr::ScannerMode> = serde_json::from_str(&txt)
                .map_err(|e| format!("README layout rejected: {} in {}", e, txt))?;
            if parsed != modes {
                return Err(format!("README layout parsed to a different configuration: {}", txt));
            }
            st.count("readme_layout_accepted");
        }
        // pretty printed form as well
        let pretty = serde_json::to_string_pretty(&modes).map_err(|e| e.to_string())?;
        let back2: Vec<scnr::ScannerMode> = serde_json::from_str(&pretty).map_err(|e| e.to_string())?;
        if back2 != modes {
            return Err("pretty printed round trip changed the configuration".to_string());
        }
        // Span / Match / Position
        let a = *rng.pick(&[0usize, 1, 77, usize::MAX - 1, usize::MAX]);
        let b = *rng.pick(&[0usize, 2, 99, usize::MAX]);
        let span = scnr::Span::new(a, b);
        let s2: scnr::Span = serde_json::from_str(&serde_json::to_string(&span).unwrap()).map_err(|e| e.to_string())?;
        if s2 != span {
            return Err(format!("Span {:?} round trips to {:?}", span, s2));
        }
        let m = scnr::Match::new(*rng.pick(&[0usize, 5, usize::MAX]), span);
        let m2: scnr::Match = serde_json::from_str(&serde_json::to_string(&m).unwrap()).map_err(|e| e.to_string())?;
        if m2 != m {
            return Err(format!("Match {:?} round trips to {:?}", m, m2));
        }
        // any value of the type, not only those a scan produces (the fields are public; 0 included)
        let pos = scnr::Position { line: *rng.pick(&[0usize, 1, 2, usize::MAX]), column: *rng.pick(&[0usize, 1, 9, usize::MAX]) };
        let p2: scnr::Position = serde_json::from_str(&serde_json::to_string(&pos).unwrap()).map_err(|e| e.to_string())?;
        if p2 != pos {
            return Err(format!("Position {:?} round trips to {:?}", pos, p2));
        }
        // a MatchExt can only be obtained from a scan or from its serialized form: write one with an
        // independent writer, read it, compare every accessor with the numbers written, and round trip
        {
            let nums: Vec<usize> = (0..7).map(|_| *rng.pick(&[0usize, 1, 3, 77, 65_536, usize::MAX - 1, usize::MAX])).collect();
            let text = format!(
                "{{\"token_type\":{},\"span\":{{\"start\":{},\"end\":{}}},\"start_position\":{{\"line\":{},\"column\":{}}},\"end_position\":{{\"line\":{},\"column\":{}}}}}",
                nums[0], nums[1], nums[2], nums[3], nums[4], nums[5], nums[6]
            );
            let me: scnr::MatchExt = serde_json::from_str(&text).map_err(|e| format!("MatchExt layout {} not accepted: {}", text, e))?;
            let got = [me.token_type(), me.start(), me.end(), me.start_position().line, me.start_position().column, me.end_position().line, me.end_position().column];
            if got[..] != nums[..] {
                return Err(format!("MatchExt read from {} has (type, start, end, start line, start column, end line, end column) = {:?}", text, got));
            }
            let again = serde_json::to_string(&me).map_err(|e| e.to_string())?;
            let me2: scnr::MatchExt = serde_json::from_str(&again).map_err(|e| e.to_string())?;
            if me2 != me {
                return Err(format!("MatchExt {:?} round trips to {:?}", me, me2));
            }
            st.count("constructed_match_ext_roundtrips");
        }
        st.count("value_roundtrips");
        Ok(())
    });
    match r {
        Ok(Ok(())) => {}
        Ok(Err(e)) => return CaseOutcome::Violated(Violation::new(e, case(json!(null)))),
        Err(p) => return CaseOutcome::Violated(Violation::new(format!("panic: {}", p), case(json!(null)))),
    }

    // (b) behavioural twin: valid configuration, scanner from x and from the round-tripped value
    let mut gp = GenParams::varied(rng);
    gp.max_nodes = 8;
    let cfg = gen_multi_mode(rng, &gp, 25, 3);
    if !cfg.all_res().iter().all(|r| print_parse_roundtrip_ok(r)) {
        return CaseOutcome::Ok;
    }
    let x = cfg.to_modes();
    let res_refs = cfg.all_res();
    let inputs: Vec<String> = (0..3).map(|_| gen_input(rng, &res_refs, &gp.letters, 30)).collect();
    let r = sut(|| -> Result<(), String> {
        let s = serde_json::to_string(&x).map_err(|e| e.to_string())?;
        let y: Vec<scnr::ScannerMode> = serde_json::from_str(&s).map_err(|e| format!("from_str: {}", e))?;
        if x != y {
            return Err(format!("round trip changed the configuration; json: {}", s));
        }
        let sx = scnr::ScannerBuilder::new().add_scanner_modes(&x).build_uncached().map_err(|e| format!("original does not build: {}", e))?;
        let sy = scnr::ScannerBuilder::new().add_scanner_modes(&y).build_uncached().map_err(|e| format!("round-tripped value does not build: {}", e))?;
        for input in &inputs {
            for mode in 0..cfg.modes.len() {
                let tx = scan_all(&sx, input, 0, mode)?;
                let ty = scan_all(&sy, input, 0, mode)?;
                if tx != ty {
                    return Err(format!("scanners built from x and from its round trip differ on {:?} in mode {}: {:?} vs {:?}", input, mode, tx, ty));
                }
                // MatchExt values from real scans
                use scnr::MatchExtIterator;
                for me in sx.find_iter(input).with_positions() {
                    let js = serde_json::to_string(&me).map_err(|e| e.to_string())?;
                    let back: scnr::MatchExt = serde_json::from_str(&js).map_err(|e| e.to_string())?;
                    if back != me {
                        return Err(format!("MatchExt {:?} round trips to {:?}", me, back));
                    }
                    st.count("matchext_roundtrips");
                }
            }
        }
        #[cfg(feature = "hooks")]
        {
            if sx.verif_dump() != sy.verif_dump() {
                // equal configurations compile deterministically in this crate; a difference is
                // suspicious and is decided by the language-level comparison
                if let Err(e) = crate::lang::scanners_equivalent(&sx, &sy) {
                    return Err(format!("compiled automata of x and of its round trip differ: {}", e));
                }
            }
            st.count("automata_compared");
        }
        st.count("behavioural_twins");
        Ok(())
    });
    st.nontrivial(hash_of(&(&plain, &cfg)));
    st.sample(json!({"json": serde_json::to_string(&modes).unwrap_or_default()}));
    match r {
        Ok(Ok(())) => CaseOutcome::Ok,
        Ok(Err(e)) => CaseOutcome::Violated(Violation::new(e, json!({"kind": "c16", "cfg": cfg, "inputs": inputs}))),
        Err(p) => CaseOutcome::Violated(Violation::new(format!("panic: {}", p), json!({"kind": "c16", "cfg": cfg, "inputs": inputs}))),
    }
}

/// The README text itself: every ```json block that is a mode list must be accepted.
fn readme_blocks(res: &mut RunResult) {
    let Ok(text) = std::fs::read_to_string("/repo/README.md") else {
        res.stats.count("readme_not_found");
        return;
    };
    let mut rest = text.as_str();
    while let Some(i) = rest.find("```json") {
        let after = &rest[i + 7..];
        let Some(j) = after.find("```") else { break };
        let block = &after[..j];
        rest = &after[j + 3..];
        res.stats.count("readme_json_blocks");
        match serde_json::from_str::<Vec<scnr::ScannerMode>>(block) {
            Ok(modes) => {
                res.stats.count("readme_json_blocks_accepted");
                // and it must build and survive a round trip
                let round = serde_json::to_string(&modes)
                    .map_err(|e| e.to_string())
                    .and_then(|s| serde_json::from_str::<Vec<scnr::ScannerMode>>(&s).map_err(|e| format!("{} in {}", e, s)));
                match round {
                    Ok(back) if back == modes => {}
                    Ok(_) => res.violations.push(Violation::new("README example changes in a round trip", json!({"kind":"c16","block": block}))),
                    Err(e) => res.violations.push(Violation::new(format!("README example does not survive a round trip: {}", e), json!({"kind":"c16","block": block}))),
                }
                if let Err(e) = scnr::ScannerBuilder::new().add_scanner_modes(&modes).build_uncached() {
                    res.violations.push(Violation::new(format!("README example does not build: {}", e), json!({"kind":"c16","block": block})));
                }
            }
            Err(e) => res.violations.push(Violation::new(
                format!("the JSON layout shown in the README is rejected: {}", e),
                json!({"kind": "c16", "block": block}),
            )),
        }
    }
}

pub fn c16(tier: Tier) -> i32 {
    let ctx = Ctx::new("C16", tier, "exploration");
    let n = ctx.scale(20_000, 1_000_000);
    let mut res = run_cases(&ctx, 1, n, |rng, i, st| c16_case(rng, i, st));
    readme_blocks(&mut res);
    let report = Report::new(
        "per case (a) a mode list of 0-3 modes as pure data with hostile strings (quotes, backslashes, control characters, DEL, U+2028, non-ASCII, empty names), absent lookaheads, empty transition lists, token types up to usize::MAX: to_string -> from_str must give an equal value, also via to_string_pretty, and the README layout written by an independent writer in the harness must parse to the same value; Span / Match / Position with extreme numbers round trip; (b) a valid random multi-mode configuration: scanners built from x and from its round trip must produce equal token streams on 3 inputs in every mode, equal compiled automata (hook dump, language-level comparison if the dumps differ), and every MatchExt obtained from the real scans must round trip. Plus every json block of the README itself. Distinct by hash of (data configuration, valid configuration).",
    )
    .floor("mode_list_roundtrips", 10_000)
    .floor("readme_layout_accepted", 5_000)
    .floor("pattern_needing_json_escapes", 2_000)
    .floor("absent_lookahead", 1_000)
    .floor("present_lookahead", 1_000)
    .floor("empty_transition_list", 1_000)
    .floor("behavioural_twins", 5_000)
    .floor("matchext_roundtrips", 10_000)
    .floor("readme_json_blocks_accepted", 1);
    finish(&ctx, res, report)
}
