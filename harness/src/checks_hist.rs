//! History properties: C06 (mode switching), C09 (line/column), C10 (resume from any offset,
//! advance_to), C11 (peek_n), C12 (isolation) and the history stream of C07.
use crate::cfg::*;
use crate::gen::*;
use crate::hist::*;
use crate::ir::*;
use crate::monitor::*;
use crate::refsem::RefPattern;
use crate::rng::Rng;
use crate::wf::*;
use scnr::{MatchExtIterator, PositionProvider, ScannerModeSwitcher};
use serde_json::{json, Value};

fn guard_roundtrip(cfg: &ScannerCfg) -> bool {
    cfg.all_res().iter().all(|r| print_parse_roundtrip_ok(r))
}

fn hist_case_json(kind: &str, cfg: &ScannerCfg, input: &str, ops: &[Op], extra: Value) -> Value {
    json!({
        "kind": kind,
        "cfg": cfg,
        "patterns": cfg.describe(),
        "input": input,
        "ops": ops,
        "extra": extra,
    })
}

fn build_any(cfg: &ScannerCfg, cached: bool) -> Result<scnr::Scanner, String> {
    match sut(|| if cached { cfg.build_cached() } else { cfg.build_uncached() }) {
        Ok(r) => r.map_err(|e| format!("build returned an error: {}", e)),
        Err(p) => Err(format!("panic while building: {}", p)),
    }
}

// ------------------------------------------------------------------------------------------------
// C07 history stream
// ------------------------------------------------------------------------------------------------

pub fn c07_history_case(rng: &mut Rng, st: &mut Stats) -> CaseOutcome {
    let p = GenParams::varied(rng);
    let cfg = gen_multi_mode(rng, &p, 25, 3);
    if !guard_roundtrip(&cfg) {
        return CaseOutcome::Skipped;
    }
    let res_refs = cfg.all_res();
    let input = gen_input(rng, &res_refs, &p.letters, 40);
    let hp = HistParams {
        max_ops: 40,
        n_modes: cfg.modes.len(),
        allow_set_offset: true,
        allow_beyond: true,
        allow_set_mode: true,
        allow_advance: true,
        allow_peek: true,
        allow_position: true,
    };
    let mut ops = gen_history(rng, &input, &hp);
    // "peek everything that is left": counts far beyond the input (a panic here is a scanning panic)
    for op in ops.iter_mut() {
        if let Op::PeekN(n) = op {
            if rng.chance(1, 6) {
                *n = *rng.pick(&[usize::MAX, usize::MAX / 2, usize::MAX / 24 + 1]);
                st.count("peeks_with_a_count_far_beyond_the_input");
            }
        }
    }
    // advance_to with any position (before the start offset, between tokens, inside a character,
    // beyond the input): the public method takes any usize and must not panic
    for _ in 0..rng.below(3) {
        let at = rng.below(ops.len() + 1);
        let pos = match rng.below(4) {
            0 => 0,
            1 => rng.below(input.len() + 1),
            2 => input.len() + rng.below(3),
            _ => rng.below(4),
        };
        ops.insert(at, Op::AdvanceTo(pos));
        st.count("advance_to_with_an_arbitrary_position");
    }
    let case = || hist_case_json("wf_history", &cfg, &input, &ops, json!(null));
    let scanner = match build_any(&cfg, rng.chance(1, 4)) {
        Ok(s) => s,
        Err(e) => return CaseOutcome::Violated(Violation::new(e, case())),
    };
    let outs = match run_history(&scanner, &input, &ops) {
        Ok(o) => o,
        Err((i, p)) => {
            return CaseOutcome::Violated(Violation::new(
                format!("panic in operation #{} ({:?}): {}", i, ops[i], p),
                case(),
            ))
        }
    };
    st.add("history_ops", ops.len() as u64);
    if let Err(e) = wf_history(&input, &ops, &outs, st) {
        let mut c = case();
        c["outputs"] = json!(outs);
        return CaseOutcome::Violated(Violation::new(e, c));
    }
    st.nontrivial(hash_of(&(&cfg, &input, &ops)));
    CaseOutcome::Ok
}

/// Stream invariants over a recorded history.
pub fn wf_history(input: &str, ops: &[Op], outs: &[Out], st: &mut Stats) -> Result<(), String> {
    let mut floor = 0usize;
    let mut exhausted = false;
    let mut count_since_reset = 0usize;
    let nchars = input.chars().count();
    for (i, (op, out)) in ops.iter().zip(outs.iter()).enumerate() {
        match (op, out) {
            (Op::SetOffset(o), _) => {
                floor = (*o).min(input.len());
                exhausted = false;
                count_since_reset = 0;
            }
            (Op::Next, Out::Next(Some(t))) => {
                if exhausted {
                    return Err(format!(
                        "operation #{}: Some({:?}) returned after the iterator had returned None",
                        i, t
                    ));
                }
                check_token(input, floor, t).map_err(|e| format!("operation #{}: {}", i, e))?;
                floor = t.end;
                count_since_reset += 1;
                if count_since_reset > nchars {
                    return Err(format!("operation #{}: more tokens than characters", i));
                }
            }
            (Op::Next, Out::Next(None)) => {
                if exhausted {
                    st.count("polled_after_exhaustion");
                }
                exhausted = true;
            }
            (Op::PeekN(n), Out::Peek(p)) => {
                let mut f = floor;
                if p.toks().len() > *n {
                    return Err(format!("operation #{}: peek_n({}) returned {} matches", i, n, p.toks().len()));
                }
                for t in p.toks() {
                    check_token(input, f, t)
                        .map_err(|e| format!("operation #{} (peeked match): {}", i, e))?;
                    f = t.end;
                }
            }
            _ => {}
        }
    }
    Ok(())
}

// ------------------------------------------------------------------------------------------------
// C10
// ------------------------------------------------------------------------------------------------

/// First token of a scan of input[pos..] in `mode` on the baseline path (fresh iterator, offset 0),
/// shifted by pos; and the mode afterwards.
fn first_token_from(
    reference: &scnr::Scanner,
    input: &str,
    pos: usize,
    mode: usize,
) -> (Option<Tok>, usize) {
    let mut it = reference.find_iter(&input[pos..]);
    it.set_mode(mode);
    let t = it.next().map(|m| {
        let mut t = Tok::from(m);
        t.start += pos;
        t.end += pos;
        t
    });
    (t, it.current_mode())
}

pub fn c10_case(rng: &mut Rng, st: &mut Stats) -> CaseOutcome {
    c10_case_sized(rng, st, false)
}

/// The same history check on inputs of 66 000 - 300 000 bytes (offsets beyond 2^16 and 2^17).
pub fn c10_big_case(rng: &mut Rng, st: &mut Stats) -> CaseOutcome {
    c10_case_sized(rng, st, true)
}

fn c10_case_sized(rng: &mut Rng, st: &mut Stats, big: bool) -> CaseOutcome {
    let mut p = GenParams::varied(rng);
    p.max_nodes = 8;
    let la = if rng.chance(1, 3) { 30 } else { 0 };
    let cfg = gen_multi_mode(rng, &p, la, 3);
    if !guard_roundtrip(&cfg) {
        return CaseOutcome::Skipped;
    }
    let has_la = cfg.modes.iter().any(|m| m.has_lookahead());
    let res_refs = cfg.all_res();
    let input = if big {
        let target = *rng.pick(&[66_000usize, 70_000, 140_000, 300_000]);
        let mut s = String::with_capacity(target + 200);
        while s.len() < target {
            s.push_str(&gen_input(rng, &res_refs, &p.letters, 40));
            if rng.chance(1, 6) {
                s.push('\n');
            }
        }
        s
    } else {
        gen_input(rng, &res_refs, &p.letters, 40)
    };
    let hp = HistParams {
        max_ops: 40,
        n_modes: cfg.modes.len(),
        allow_set_offset: true,
        allow_beyond: true,
        allow_set_mode: true,
        allow_advance: true,
        allow_peek: true,
        allow_position: false,
    };
    let mut ops = gen_history(rng, &input, &hp);
    // the documented idiom: peek, then advance to the end of a peeked match
    for _ in 0..rng.range(1, 4) {
        let at = rng.below(ops.len() + 1);
        ops.insert(at, Op::AdvanceToPeeked(rng.below(3)));
        ops.insert(at, Op::PeekN(rng.range(1, 3)));
    }
    let start_offset = if rng.chance(1, 3) {
        Some(*rng.pick(&boundaries(&input)))
    } else {
        None
    };
    let case = |executed: &[Op]| {
        hist_case_json("c10", &cfg, &input, executed, json!({"with_offset": start_offset}))
    };
    let scanner = match build_any(&cfg, rng.chance(1, 4)) {
        Ok(s) => s,
        Err(e) => return CaseOutcome::Violated(Violation::new(e, case(&ops))),
    };
    let reference = match build_any(&cfg, false) {
        Ok(s) => s,
        Err(e) => return CaseOutcome::Violated(Violation::new(e, case(&ops))),
    };
    let len = input.len();
    let mut executed: Vec<Op> = Vec::new();
    // one history in three runs on a scanner that was used before (another text, partly scanned,
    // peeked, its mode changed)
    let warm = if rng.chance(1, 3) { Some(gen_input(rng, &res_refs, &p.letters, 25)) } else { None };
    let r = sut(|| -> Result<(), String> {
        if let Some(w) = &warm {
            let mut it0 = scanner.find_iter(w);
            let _ = it0.peek_n(2);
            let _ = it0.next();
            let _ = it0.next();
            let mut o = w.len() / 2;
            while !w.is_char_boundary(o) {
                o -= 1;
            }
            it0.set_offset(o);
            if cfg.modes.len() > 1 {
                it0.set_mode(cfg.modes.len() - 1);
            }
            let _ = it0.next();
            st.count("histories_on_a_scanner_used_before");
        }
        let mut it = scanner.find_iter(&input);
        let mut pos = 0usize;
        let mut mode = 0usize;
        let mut since_reset = false;
        if let Some(o) = start_offset {
            it = it.with_offset(o);
            pos = o.min(len);
            since_reset = true;
            st.count("with_offset");
        }
        let mut last_peek: Option<Peeked> = None;
        for op in &ops {
            match op {
                Op::Next => {
                    executed.push(op.clone());
                    let got = it.next().map(Tok::from);
                    let (exp, mode_after) = first_token_from(&reference, &input, pos, mode);
                    if got != exp {
                        return Err(format!(
                            "after {} the iterator at offset {} in mode {} yields {:?}, a scan of the input from that offset in that mode yields {:?}",
                            if since_reset { "with_offset/set_offset/advance_to" } else { "plain iteration" },
                            pos, mode, got, exp
                        ));
                    }
                    if since_reset {
                        st.count("next_after_reset_checked");
                    }
                    st.count("next_checked");
                    match exp {
                        Some(t) => {
                            pos = t.end;
                            mode = mode_after;
                        }
                        None => pos = len,
                    }
                    let got_mode = it.current_mode();
                    if got_mode != mode {
                        return Err(format!(
                            "mode after the token is {} but the suffix scan ends in mode {}",
                            got_mode, mode
                        ));
                    }
                    last_peek = None;
                }
                Op::PeekN(n) => {
                    executed.push(op.clone());
                    exec_op(&mut it, op, &mut last_peek);
                    // the preview after a resume must be the beginning of the suffix scan, too
                    let mut exp: Vec<Tok> = Vec::new();
                    let (mut p2, m2) = (pos, mode);
                    while exp.len() < *n {
                        let (t, _) = first_token_from(&reference, &input, p2, m2);
                        let Some(t) = t else { break };
                        exp.push(t);
                        if transition_of(&cfg.modes[m2], t.tt).is_some() {
                            break;
                        }
                        p2 = t.end;
                    }
                    let got: Vec<Tok> = last_peek.as_ref().map(|p| p.toks().to_vec()).unwrap_or_default();
                    if got != exp {
                        return Err(format!(
                            "peek_n({}) at offset {} in mode {} ({}) previews {:?}, a scan of the input from that offset yields {:?}",
                            n, pos, mode, if since_reset { "after a reset" } else { "no reset so far" }, got, exp
                        ));
                    }
                    if since_reset {
                        st.count("peek_after_reset_checked");
                    }
                }
                Op::AdvanceToPeeked(k) => {
                    let Some(pk) = last_peek.clone() else { continue };
                    let toks = pk.toks();
                    if toks.is_empty() {
                        continue;
                    }
                    let k = (*k).min(toks.len() - 1);
                    // only matches that do not trigger a mode switch may be skipped this way
                    if toks[..=k]
                        .iter()
                        .any(|t| transition_of(&cfg.modes[mode], t.tt).is_some())
                    {
                        continue;
                    }
                    let opk = Op::AdvanceToPeeked(k);
                    executed.push(opk.clone());
                    exec_op(&mut it, &opk, &mut last_peek);
                    pos = toks[k].end;
                    st.count("advance_to_after_peek");
                    if since_reset {
                        st.count("advance_to_after_peek_after_reset");
                    }
                    last_peek = None;
                }
                Op::SetOffset(o) => {
                    executed.push(op.clone());
                    // a third of the resets go through the consuming with_offset on the used
                    // iterator (the index of the reset in the history decides, so that replays of
                    // the executed list take the same path)
                    if executed.len().wrapping_add(*o) % 3 == 0 {
                        it = it.with_offset(*o);
                        last_peek = None;
                        st.count("reset_through_with_offset_mid_history");
                    } else {
                        exec_op(&mut it, op, &mut last_peek);
                    }
                    st.count("reset");
                    if *o > 65_535 {
                        st.count("reset_to_an_offset_beyond_65535");
                    }
                    if *o < pos {
                        st.count("reset_backwards");
                    }
                    if *o >= len {
                        st.count("reset_to_len_or_beyond");
                    }
                    if has_la {
                        st.count("reset_in_lookahead_config");
                    }
                    pos = (*o).min(len);
                    since_reset = true;
                }
                Op::SetMode(m) => {
                    executed.push(op.clone());
                    exec_op(&mut it, op, &mut last_peek);
                    mode = *m;
                }
                _ => {
                    executed.push(op.clone());
                    exec_op(&mut it, op, &mut last_peek);
                }
            }
        }
        Ok(())
    });
    st.add("history_ops", executed.len() as u64);
    if big {
        st.count("big_input_histories");
        st.sample(json!({"patterns": cfg.describe(), "input_bytes": input.len(), "with_offset": start_offset, "ops": format!("{:?}", executed)}));
    } else {
        st.sample(json!({"patterns": cfg.describe(), "input": input, "with_offset": start_offset, "ops": format!("{:?}", executed)}));
    }
    match r {
        Ok(Ok(())) => {
            st.nontrivial(hash_of(&(&cfg, &input, &executed, start_offset)));
            CaseOutcome::Ok
        }
        Ok(Err(e)) => CaseOutcome::Violated(Violation::new(e, case(&executed))),
        Err(p) => CaseOutcome::Violated(Violation::new(
            format!("panic after operations {:?}: {}", executed.len(), p),
            case(&executed),
        )),
    }
}

pub fn c10(tier: Tier) -> i32 {
    let ctx = Ctx::new("C10", tier, "exploration");
    let n = ctx.scale(30_000, 2_000_000);
    let mut res = run_cases(&ctx, 1, n, |rng, _i, st| c10_case(rng, st));
    let nbig = ctx.scale(1_000, 30_000);
    res.merge(run_cases(&ctx, 2, nbig, |rng, _i, st| c10_big_case(rng, st)));
    let report = Report::new(
        "stream 2: the same histories on inputs of 66 000 - 300 000 bytes (resets to offsets beyond 2^16 and 2^17). stream 1: random multi-mode configurations (1-3 modes, with and without lookaheads, transitions), inputs of 0-40 chars, histories of 5-40 operations (next, peek_n, advance_to(end of a peeked match), set_offset to 0 / len / beyond / any character boundary forwards and backwards, set_mode), optionally started through with_offset. Oracle (metamorphic): every next() must equal the first token of a fresh uncached scanner's fresh iterator over the suffix input[pos..] in the model's mode, shifted by pos; advance_to moves the model position to the end of the peeked match (only matches that trigger no mode switch are skipped this way). Distinct by hash of (configuration, input, executed history).",
    )
    .floor("reset", 10_000)
    .floor("reset_backwards", 2000)
    .floor("reset_to_len_or_beyond", 1000)
    .floor("advance_to_after_peek", 3000)
    .floor("advance_to_after_peek_after_reset", 1500)
    .floor("reset_in_lookahead_config", 2000)
    .floor("next_after_reset_checked", 20_000)
    .floor("reset_through_with_offset_mid_history", 2_000)
    .floor("peek_after_reset_checked", 10_000)
    .floor("big_input_histories", 200)
    .floor("reset_to_an_offset_beyond_65535", 1_000)
    .assume("the baseline path (fresh scanner, fresh iterator, offset 0) is the reference; its own tokenization is judged by C01/C04/C05")
    .assume("offsets are on character boundaries or beyond the input length");
    finish(&ctx, res, report)
}

// ------------------------------------------------------------------------------------------------
// C11
// ------------------------------------------------------------------------------------------------

/// Expected peek result derived from real next() calls on a twin iterator.
fn expected_peek(
    cfg: &ScannerCfg,
    scanner: &scnr::Scanner,
    input: &str,
    prefix_without_peeks: &[Op],
    n: usize,
) -> Result<(Vec<Tok>, Option<usize>, bool), String> {
    // returns (tokens, Some(target) if the last token triggers a switch, input_ended)
    let r = sut(|| {
        let mut it = scanner.find_iter(input);
        let mut lp = None;
        for op in prefix_without_peeks {
            exec_op(&mut it, op, &mut lp);
        }
        let mode = it.current_mode();
        let mut toks = Vec::new();
        let mut target = None;
        let mut ended = false;
        while toks.len() < n {
            match it.next() {
                None => {
                    ended = true;
                    break;
                }
                Some(m) => {
                    let t = Tok::from(m);
                    toks.push(t);
                    if let Some(tm) = transition_of(&cfg.modes[mode], t.tt) {
                        target = Some(tm);
                        break;
                    }
                }
            }
        }
        (toks, target, ended)
    });
    r.map_err(|p| format!("panic in twin: {}", p))
}

pub fn c11_case(rng: &mut Rng, st: &mut Stats) -> CaseOutcome {
    let mut p = GenParams::varied(rng);
    p.max_nodes = 8;
    let la = if rng.chance(1, 4) { 25 } else { 0 };
    let cfg = gen_multi_mode(rng, &p, la, 3);
    if !guard_roundtrip(&cfg) {
        return CaseOutcome::Skipped;
    }
    let res_refs = cfg.all_res();
    let mut input = gen_input(rng, &res_refs, &p.letters, 30);
    if rng.chance(1, 3) {
        // unmatched tail
        for _ in 0..rng.range(1, 4) {
            input.push(*rng.pick(&EXTRA_INPUT));
        }
    }
    let hp = HistParams {
        max_ops: 30,
        n_modes: cfg.modes.len(),
        allow_set_offset: true,
        allow_beyond: false,
        allow_set_mode: true,
        allow_advance: true,
        allow_peek: true,
        allow_position: true,
    };
    let mut ops = gen_history(rng, &input, &hp);
    // more peeks
    let extra = rng.range(1, 5);
    for _ in 0..extra {
        let at = rng.below(ops.len() + 1);
        ops.insert(at, Op::PeekN(*rng.pick(&[0usize, 1, 2, 3, 7])));
    }
    // AdvanceToPeeked is only meaningful directly after a peek; keep the generator's placement.
    let case = |extra: Value| hist_case_json("c11", &cfg, &input, &ops, extra);
    let scanner = match build_any(&cfg, rng.chance(1, 4)) {
        Ok(s) => s,
        Err(e) => return CaseOutcome::Violated(Violation::new(e, case(json!(null)))),
    };
    // Run A: the history as generated.
    let outs = match run_history(&scanner, &input, &ops) {
        Ok(o) => o,
        Err((i, pm)) => {
            return CaseOutcome::Violated(Violation::new(
                format!("panic in operation #{} ({:?}): {}", i, ops[i], pm),
                case(json!(null)),
            ))
        }
    };
    st.add("history_ops", ops.len() as u64);
    // Twin B: peeks removed, advances made concrete.
    let mut twin_ops: Vec<Op> = Vec::new();
    let mut twin_idx: Vec<usize> = Vec::new(); // index in ops of each twin op
    for (i, (op, out)) in ops.iter().zip(outs.iter()).enumerate() {
        match (op, out) {
            (Op::PeekN(_), _) => {}
            (Op::AdvanceToPeeked(_), Out::Advance(Some((arg, _)))) => {
                twin_ops.push(Op::AdvanceTo(*arg));
                twin_idx.push(i);
            }
            (Op::AdvanceToPeeked(_), _) => {}
            _ => {
                twin_ops.push(op.clone());
                twin_idx.push(i);
            }
        }
    }
    let twin_outs = match run_history(&scanner, &input, &twin_ops) {
        Ok(o) => o,
        Err((i, pm)) => {
            return CaseOutcome::Violated(Violation::new(
                format!("panic in twin operation #{}: {}", i, pm),
                case(json!({"twin_ops": twin_ops})),
            ))
        }
    };
    for (k, (to, &i)) in twin_outs.iter().zip(twin_idx.iter()).enumerate() {
        st.count("twin_comparisons");
        if *to != outs[i] {
            return CaseOutcome::Violated(Violation::new(
                format!(
                    "peek_n has a side effect: operation #{} ({:?}) returns {:?} in the history with peeks and {:?} in the same history without them (twin op #{})",
                    i, ops[i], outs[i], to, k
                ),
                case(json!({"twin_ops": twin_ops, "outputs": outs, "twin_outputs": twin_outs})),
            ));
        }
    }
    // Prophecy + classification for every peek.
    let mut prefix: Vec<Op> = Vec::new();
    for (i, (op, out)) in ops.iter().zip(outs.iter()).enumerate() {
        match (op, out) {
            (Op::PeekN(n), Out::Peek(got)) => {
                let (toks, target, ended) =
                    match expected_peek(&cfg, &scanner, &input, &prefix, *n) {
                        Ok(x) => x,
                        Err(e) => return CaseOutcome::Violated(Violation::new(e, case(json!(null)))),
                    };
                // events
                if ended {
                    st.count("peek_reaching_input_end");
                }
                if target.is_some() {
                    st.count("peek_reaching_mode_switch");
                }
                if toks.is_empty() && *n > 0 {
                    st.count("peek_not_found");
                }
                {
                    // unmatched characters in the peeked range?
                    let mut f = None;
                    for t in &toks {
                        if let Some(prev) = f {
                            if t.start > prev {
                                st.count("peek_over_unmatched_char");
                                break;
                            }
                        }
                        f = Some(t.end);
                    }
                }
                let mut acceptable: Vec<Peeked> = Vec::new();
                if let Some(tm) = target {
                    acceptable.push(Peeked::ModeSwitch(toks.clone(), tm));
                    if toks.len() == *n {
                        acceptable.push(Peeked::Matches(toks.clone()));
                    }
                } else if toks.len() == *n {
                    acceptable.push(Peeked::Matches(toks.clone()));
                    if *n == 0 {
                        acceptable.push(Peeked::NotFound);
                    }
                } else if toks.is_empty() {
                    acceptable.push(Peeked::NotFound);
                } else {
                    acceptable.push(Peeked::ReachedEnd(toks.clone()));
                }
                st.count("peeks_checked");
                if !acceptable.contains(got) {
                    return CaseOutcome::Violated(Violation::new(
                        format!(
                            "operation #{}: peek_n({}) returned {:?} but the following next() calls yield {:?}{}{}",
                            i, n, got, toks,
                            if ended { " and then the input ends" } else { "" },
                            target.map_or(String::new(), |t| format!(" and the last one switches to mode {}", t)),
                        ),
                        case(json!({"outputs": outs})),
                    ));
                }
            }
            (Op::AdvanceToPeeked(_), Out::Advance(Some((arg, _)))) => prefix.push(Op::AdvanceTo(*arg)),
            (Op::AdvanceToPeeked(_), _) => {}
            _ => prefix.push(op.clone()),
        }
    }
    st.nontrivial(hash_of(&(&cfg, &input, &ops)));
    st.sample(json!({"patterns": cfg.describe(), "input": input, "ops": format!("{:?}", ops)}));
    CaseOutcome::Ok
}

pub fn c11(tier: Tier) -> i32 {
    let ctx = Ctx::new("C11", tier, "exploration");
    let n = ctx.scale(30_000, 2_000_000);
    let mut res = run_cases(&ctx, 1, n, |rng, _i, st| c11_case(rng, st));
    let nbig = ctx.scale(600, 30_000);
    res.merge(run_cases(&ctx, 2, nbig, |rng, _i, st| crate::checks_scale::c11_big_case(rng, st)));
    let nhuge = ctx.scale(320, 16_000);
    res.merge(run_cases_subprocess(&ctx, 3, nhuge, 40));
    let report = Report::new(
        "stream 3: peek_n(n) with n in {2^31, 2^33, 2^40, usize::MAX/24+1, isize::MAX, usize::MAX} (peek everything that is left) on inputs of 5-400 words, in worker processes so that an abort is attributed to its case; same prophecy and classification oracle. stream 2: large previews - peek_n(n) with n in {15,16,17,31,32,33,64,255,256,257,1000,4096,20000} on inputs of 600-12 000 words (one case in twelve: n in {65535, 65536, 65537, 70000} on 90 000-100 000 words) in a two-mode configuration whose switching tokens are rare; every previewed token is confirmed by the following next() calls, the variant by what stopped the preview, and mode/offset must be untouched. stream 1: random multi-mode configurations, inputs of 0-34 chars with unmatched characters before/between/after tokens, histories of 5-35 operations with peek_n(n), n in {0,1,2,3,7}, at arbitrary points between next / advance_to / set_offset / set_mode / position. Oracles, both over recorded call logs and both using the real next() as reference: (a) twin execution - the same history with all peeks removed must produce identical outputs for every remaining call; (b) prophecy + classification - each peek result must equal what the following next() calls yield on a twin iterator (stopping at n, at the input end, or after a token with a transition in the current mode) and the variant must match (Matches / MatchesReachedEnd / MatchesReachedModeSwitch(target) / NotFound; at exactly n with a switch both variants are accepted; n = 0 accepts Matches([]) or NotFound). Distinct by hash of (configuration, input, history).",
    )
    .floor("peek_over_unmatched_char", 3000)
    .floor("peek_reaching_input_end", 5000)
    .floor("peek_reaching_mode_switch", 5000)
    .floor("peek_not_found", 2000)
    .floor("twin_comparisons", 20_000)
    .floor("peeks_checked", 50_000)
    .floor("large_peeks", 1_500)
    .floor("previews_with_n_beyond_2_pow_31", 300)
    .floor("previews_longer_than_255_tokens", 300)
    .floor("cases_with_more_than_65536_tokens_to_preview", 10)
    .floor("large_peek_stopped_by_mode_switch", 50)
    .floor("large_peek_stopped_by_input_end", 50);
    finish(&ctx, res, report)
}

// ------------------------------------------------------------------------------------------------
// C06
// ------------------------------------------------------------------------------------------------

struct Transparent {
    cfg: ScannerCfg,
    /// per mode: (keyword, token type)
    keywords: Vec<Vec<(String, usize)>>,
}

fn gen_transparent(rng: &mut Rng) -> Transparent {
    let firsts = ['a', 'b', 'c', 'd', 'e', 'f', 'é', '😀'];
    // now and then: more than 256 modes (mode numbers beyond one byte), and wide transition lists
    // and very rarely more than 65 536 modes (mode numbers beyond two bytes; such a scanner still
    // builds in a few seconds because every mode is tiny)
    let huge_modes = false; // the 65 536 boundary has its own directed stream (c06_huge_modes_case)
    let many_modes = huge_modes || rng.chance(1, 30);
    let wide = (many_modes && !huge_modes) || rng.chance(1, 8);
    let n_modes = if huge_modes { rng.range(65_537, 65_600) } else if many_modes { rng.range(257, 300) } else { rng.range(1, 4) };
    let pool: Vec<usize> = {
        let by_index = rng.chance(1, 2);
        let mut v = gen_token_types(rng, if wide { 30 } else { 7 }, by_index);
        if wide {
            // enough distinct token types for very long transition lists
            for t in 0..320usize {
                let t = 100 + 7 * t;
                if !v.contains(&t) {
                    v.push(t);
                }
            }
        }
        v.dedup();
        v.sort();
        v
    };
    let mut modes = Vec::new();
    let mut keywords = Vec::new();
    for mi in 0..n_modes {
        let nk = rng.range(1, 5);
        let mut fs = firsts.to_vec();
        rng.shuffle(&mut fs);
        let mut tts = pool.clone();
        rng.shuffle(&mut tts);
        let mut kws = Vec::new();
        let mut pats = Vec::new();
        for k in 0..nk {
            let mut kw = String::new();
            kw.push(fs[k]);
            for _ in 0..rng.below(3) {
                kw.push(*rng.pick(&['x', 'y']));
            }
            let lits: Vec<Re> = kw.chars().map(|c| Re::Lit(c, LitStyle::Verbatim)).collect();
            let re = if lits.len() == 1 {
                lits[0].clone()
            } else {
                Re::Cat(lits)
            };
            let re = if rng.chance(1, 4) {
                Re::Group(GroupKind::Capture, Box::new(re))
            } else {
                re
            };
            pats.push(RefPattern {
                re,
                tt: tts[k],
                la: None,
            });
            kws.push((kw, tts[k]));
        }
        // transitions: sorted by token type, 0-3 entries, also for token types the mode does not
        // produce (so that lookups fall between entries)
        // wide lists: 4-16 entries, now and then more than 256 (entry numbers beyond a byte)
        let ntr = if wide && rng.chance(1, 6) { rng.range(257, 300) } else if wide { rng.range(4, 16) } else { rng.below(4) };
        let mut tr: Vec<usize> = Vec::new();
        let mut cand = pool.clone();
        rng.shuffle(&mut cand);
        for t in cand.into_iter().take(ntr) {
            tr.push(t);
        }
        tr.sort();
        let trans: Vec<(usize, usize)> = tr
            .into_iter()
            .map(|t| {
                (t, if huge_modes && (mi < 3 || rng.chance(1, 2)) {
                    rng.range(65_536, n_modes - 1)
                } else if many_modes && rng.chance(1, 2) {
                    rng.range(256, n_modes - 1)
                } else {
                    rng.below(n_modes)
                })
            })
            .collect();
        modes.push(ModeCfg {
            name: format!("MODE_{}", mi),
            pats,
            trans,
        });
        keywords.push(kws);
    }
    Transparent {
        cfg: ScannerCfg { modes },
        keywords,
    }
}

/// The 10-line tokenizer of the transparent family.
fn transparent_next(t: &Transparent, input: &str, pos: &mut usize, mode: &mut usize, st: &mut Stats) -> Option<Tok> {
    while *pos < input.len() {
        let rest = &input[*pos..];
        for (kw, tt) in &t.keywords[*mode] {
            if rest.starts_with(kw.as_str()) {
                let tok = Tok { tt: *tt, start: *pos, end: *pos + kw.len() };
                *pos = tok.end;
                let m = &t.cfg.modes[*mode];
                match m.trans.iter().position(|(x, _)| *x == *tt) {
                    Some(i) => {
                        st.count("switch_taken");
                        if i >= 1 {
                            st.count("transition_lookup_hits_later_entry");
                        }
                        if m.trans.len() > 8 {
                            st.count("switch_taken_from_a_list_of_more_than_8_transitions");
                        }
                        if m.trans.len() > 256 {
                            st.count("switch_taken_from_a_list_of_more_than_256_transitions");
                        }
                        *mode = m.trans[i].1;
                        if *mode > 255 {
                            st.count("switch_into_a_mode_numbered_above_255");
                        }
                        if *mode > 65_535 {
                            st.count("switch_into_a_mode_numbered_above_65535");
                        }
                    }
                    None => {
                        st.count("token_without_transition");
                        if !m.trans.is_empty() {
                            let below = m.trans.iter().filter(|(x, _)| *x < *tt).count();
                            if below > 0 && below < m.trans.len() {
                                st.count("transition_lookup_falls_between_entries");
                            }
                        }
                    }
                }
                return Some(tok);
            }
        }
        st.count("skipped_char");
        *pos += rest.chars().next().unwrap().len_utf8();
    }
    None
}

pub fn c06_case(rng: &mut Rng, st: &mut Stats) -> CaseOutcome {
    let t = gen_transparent(rng);
    let cfg = &t.cfg;
    let n_modes = cfg.modes.len();
    // inputs
    let letters = ['a', 'b', 'c', 'd', 'e', 'f', 'é', '😀', 'x', 'y', 'z', ' ', '\n'];
    let n_iter = rng.range(1, 3);
    let mut plans: Vec<(String, Vec<Op>, Option<usize>, bool)> = Vec::new();
    for _ in 0..n_iter {
        let mut input = String::new();
        for _ in 0..rng.below(40) {
            if rng.chance(1, 2) {
                let kws = &t.keywords[rng.below(n_modes)];
                input.push_str(&kws[rng.below(kws.len())].0);
            } else {
                input.push(*rng.pick(&letters));
            }
        }
        let nops = rng.range(5, 50);
        let mut ops = Vec::new();
        for _ in 0..nops {
            let r = rng.below(100);
            ops.push(if r < 60 {
                Op::Next
            } else if r < 75 {
                Op::PeekN(rng.below(4))
            } else if r < 88 {
                Op::SetMode(rng.below(n_modes))
            } else {
                Op::CurrentMode
            });
        }
        let scanner_mode = if rng.chance(1, 2) { Some(rng.below(n_modes)) } else { None };
        plans.push((input, ops, scanner_mode, rng.chance(1, 4)));
    }
    let case = || json!({"kind": "c06", "cfg": cfg, "patterns": cfg.describe(), "plans": plans.iter().map(|(i,o,m,w)| json!({"input": i, "ops": o, "scanner_set_mode_before": m, "with_positions": w})).collect::<Vec<_>>() });
    let cached = rng.chance(1, 3);
    if cached && rng.chance(1, 2) {
        // a sibling configuration with the same names and patterns but other transitions is built
        // through the cache first: the mode graph must not be shared with it
        let mut sib = cfg.clone();
        let k = rng.below(n_modes);
        if sib.modes[k].trans.is_empty() {
            let tt = sib.modes[k].pats[0].tt;
            sib.modes[k].trans.push((tt, rng.below(n_modes)));
        } else if rng.chance(1, 2) {
            sib.modes[k].trans.remove(0);
        } else {
            sib.modes[k].trans[0].1 = (sib.modes[k].trans[0].1 + 1) % n_modes.max(1);
        }
        if sib != *cfg {
            let _ = build_any(&sib, true);
            st.count("cached_sibling_with_other_transitions_built_first");
        }
    }
    let mut scanner = match build_any(cfg, cached) {
        Ok(s) => s,
        Err(e) => return CaseOutcome::Violated(Violation::new(e, case())),
    };
    let r = sut(|| -> Result<(), String> {
        for (pi, (input, ops, scanner_mode, with_pos)) in plans.iter().enumerate() {
            if let Some(m) = scanner_mode {
                scanner.set_mode(*m);
                st.count("scanner_set_mode_before_find_iter");
                if scanner.current_mode() != *m {
                    return Err(format!("Scanner::current_mode() is {} after set_mode({})", scanner.current_mode(), m));
                }
            }
            for i in 0..n_modes + 1 {
                let exp = cfg.modes.get(i).map(|m| m.name.as_str());
                if scanner.mode_name(i) != exp {
                    return Err(format!("mode_name({}) is {:?}, expected {:?}", i, scanner.mode_name(i), exp));
                }
            }
            let mut pos = 0usize;
            let mut mode = 0usize;
            if *with_pos {
                st.count("iterations_through_with_positions");
                let mut it = scanner.find_iter(input).with_positions();
                if it.current_mode() != 0 {
                    return Err(format!("iteration #{}: a new iterator starts in mode {} (Scanner mode {:?})", pi, it.current_mode(), scanner_mode));
                }
                for (oi, op) in ops.iter().enumerate() {
                    match op {
                        Op::Next => {
                            let got = it.next().map(|m| Tok { tt: m.token_type(), start: m.start(), end: m.end() });
                            let exp = transparent_next(&t, input, &mut pos, &mut mode, st);
                            if got != exp {
                                return Err(format!("iteration #{} op #{}: next() = {:?}, the patterns of mode {} give {:?}", pi, oi, got, mode, exp));
                            }
                        }
                        Op::SetMode(m) => {
                            it.set_mode(*m);
                            mode = *m;
                            st.count("set_mode_mid_stream");
                        }
                        _ => {}
                    }
                    if it.current_mode() != mode {
                        return Err(format!("iteration #{} op #{} ({:?}): current_mode() = {}, expected {}", pi, oi, op, it.current_mode(), mode));
                    }
                }
            } else {
                let mut it = scanner.find_iter(input);
                if it.current_mode() != 0 {
                    return Err(format!("iteration #{}: a new iterator starts in mode {} (Scanner mode {:?})", pi, it.current_mode(), scanner_mode));
                }
                for (oi, op) in ops.iter().enumerate() {
                    match op {
                        Op::Next => {
                            let got = it.next().map(Tok::from);
                            let mode_before = mode;
                            let exp = transparent_next(&t, input, &mut pos, &mut mode, st);
                            if got != exp {
                                return Err(format!("iteration #{} op #{}: next() = {:?}, the patterns of mode {} give {:?}", pi, oi, got, mode_before, exp));
                            }
                        }
                        Op::PeekN(n) => {
                            let _ = it.peek_n(*n);
                            st.count("peek_between_tokens");
                        }
                        Op::SetMode(m) => {
                            it.set_mode(*m);
                            mode = *m;
                            st.count("set_mode_mid_stream");
                        }
                        _ => {}
                    }
                    if it.current_mode() != mode {
                        return Err(format!("iteration #{} op #{} ({:?}): current_mode() = {}, expected {}", pi, oi, op, it.current_mode(), mode));
                    }
                    for i in 0..n_modes + 1 {
                        let exp = cfg.modes.get(i).map(|m| m.name.as_str());
                        if it.mode_name(i) != exp {
                            return Err(format!("iterator mode_name({}) is {:?}, expected {:?}", i, it.mode_name(i), exp));
                        }
                    }
                }
            }
            st.add("history_ops", ops.len() as u64);
        }
        Ok(())
    });
    st.sample(json!({"patterns": cfg.describe(), "first_input": plans[0].0, "first_ops": format!("{:?}", plans[0].1)}));
    match r {
        Ok(Ok(())) => {
            st.nontrivial(hash_of(&(cfg, &plans)));
            CaseOutcome::Ok
        }
        Ok(Err(e)) => CaseOutcome::Violated(Violation::new(e, case())),
        Err(p) => CaseOutcome::Violated(Violation::new(format!("panic: {}", p), case())),
    }
}

/// C06 over general patterns: random multi-mode configurations (overlapping patterns, lookaheads,
/// shared token types), the expected token at every step computed by the tokenizer rule of the
/// reference semantics on the patterns of the MODEL's current mode.
pub fn c06_general_case(rng: &mut Rng, st: &mut Stats) -> CaseOutcome {
    use crate::refsem::{best, candidates, LaStats, RefInput, MAX_DENOT_CHARS};
    let mut p = GenParams::varied(rng);
    p.max_nodes = 8;
    let la = if rng.chance(1, 3) { 25 } else { 0 };
    let cfg = gen_multi_mode(rng, &p, la, 4);
    if !guard_roundtrip(&cfg) {
        return CaseOutcome::Skipped;
    }
    let res_refs = cfg.all_res();
    let input = gen_input(rng, &res_refs, &p.letters, 40);
    let inp = RefInput::new(&input);
    if inp.len() > MAX_DENOT_CHARS {
        return CaseOutcome::Skipped;
    }
    let set_mode_at: Vec<(usize, usize)> = (0..rng.below(3)).map(|_| (rng.below(12), rng.below(cfg.modes.len()))).collect();
    let case = || json!({"kind": "c06_general", "cfg": cfg, "patterns": cfg.describe(), "input": input, "set_mode_at_token": set_mode_at});
    let scanner = match build_any(&cfg, rng.chance(1, 4)) {
        Ok(s) => s,
        Err(e) => return CaseOutcome::Violated(Violation::new(e, case())),
    };
    let r = sut(|| -> Result<(), String> {
        let mut it = scanner.find_iter(&input);
        let mut pos = 0usize;
        let mut mode = 0usize;
        let mut k = 0usize;
        let mut la_stats = LaStats::default();
        loop {
            for (at, m) in &set_mode_at {
                if *at == k {
                    it.set_mode(*m);
                    mode = *m;
                    st.count("general_set_mode_mid_stream");
                }
            }
            let got = it.next().map(Tok::from);
            // reference: next position with a candidate in the model's mode
            let pats = &cfg.modes[mode].pats;
            let mut q = pos;
            let mut expected = None;
            while q < inp.len() {
                let c = candidates(pats, &inp, q, &mut la_stats);
                if !c.is_empty() {
                    expected = Some((q, best(&c)));
                    break;
                }
                q += 1;
            }
            match (&got, &expected) {
                (None, None) => break,
                (Some(t), None) => return Err(format!("token #{} {:?} reported in mode {} although no pattern of that mode matches from offset {} on", k, t, mode, inp.off[pos])),
                (None, Some((q, b))) => return Err(format!("no token #{} although pattern #{} of mode {} matches at offset {}", k, b[0].pat, mode, inp.off[*q])),
                (Some(t), Some((q, b))) => {
                    let ok = t.start == inp.off[*q] && b.iter().any(|c| t.end == inp.off[c.end] && t.tt == pats[c.pat].tt);
                    if !ok {
                        return Err(format!(
                            "token #{} is {:?}; the patterns of mode {} ({:?}) give type {} at {}..{}",
                            k, t, mode, cfg.modes[mode].name, pats[b[0].pat].tt, inp.off[*q], inp.off[b[0].end]
                        ));
                    }
                    st.count("general_tokens_checked");
                    if let Some(m) = transition_of(&cfg.modes[mode], t.tt) {
                        if m != mode {
                            st.count("general_switch_to_other_mode");
                        }
                        mode = m;
                    }
                    pos = inp.char_index(t.end).unwrap();
                }
            }
            if it.current_mode() != mode {
                return Err(format!("after token #{} current_mode() = {}, expected {}", k, it.current_mode(), mode));
            }
            k += 1;
            if k > inp.len() + 2 {
                return Err("no progress".to_string());
            }
        }
        Ok(())
    });
    st.count("general_histories");
    match r {
        Ok(Ok(())) => {
            st.nontrivial(hash_of(&(&cfg, &input, &set_mode_at)));
            CaseOutcome::Ok
        }
        Ok(Err(e)) => CaseOutcome::Violated(Violation::new(e, case())),
        Err(pm) => CaseOutcome::Violated(Violation::new(format!("panic: {}", pm), case())),
    }
}

/// More than 65 536 modes: every mode has the patterns a, b, c (types 1, 2, 3); the modes 0, 1, 2,
/// 65 535, 65 536, 65 537 and the last two switch among each other on every token type, all other
/// modes switch back to mode 0 on `a`. The expected stream is a table lookup. (Mode numbers beyond
/// two bytes; the scanner builds in a few seconds because every mode is tiny.)
pub fn c06_huge_modes_case(rng: &mut Rng, st: &mut Stats) -> CaseOutcome {
    let n = 65_538 + rng.below(60);
    let hubs: Vec<usize> = vec![0, 1, 2, 65_535, 65_536, 65_537, n - 2, n - 1];
    let mut trans_of: std::collections::HashMap<usize, Vec<(usize, usize)>> = std::collections::HashMap::new();
    for h in &hubs {
        let mut t = Vec::new();
        for tt in 1..=3usize {
            if rng.chance(4, 5) {
                t.push((tt, *rng.pick(&hubs)));
            }
        }
        trans_of.insert(*h, t);
    }
    let pats = || vec![scnr::Pattern::new("a".to_string(), 1), scnr::Pattern::new("b".to_string(), 2), scnr::Pattern::new("c".to_string(), 3)];
    let modes: Vec<scnr::ScannerMode> = (0..n)
        .map(|m| scnr::ScannerMode::new(&format!("M{}", m), pats(), trans_of.get(&m).cloned().unwrap_or_else(|| vec![(1, 0)])))
        .collect();
    let input: String = (0..60).map(|_| *rng.pick(&['a', 'b', 'c', 'z', 'a', 'b'])).collect();
    let case = || json!({"kind": "c06_huge", "modes": n, "hub_transitions": hubs.iter().map(|h| json!({"mode": h, "transitions": trans_of[h]})).collect::<Vec<_>>(), "input": input});
    let scanner = match sut(|| scnr::ScannerBuilder::new().add_scanner_modes(&modes).build_uncached()) {
        Ok(Ok(s)) => s,
        Ok(Err(e)) => return CaseOutcome::Violated(Violation::new(format!("a configuration of {} tiny modes does not build: {}", n, e), case())),
        Err(p) => return CaseOutcome::Violated(Violation::new(format!("build panicked: {}", p), case())),
    };
    st.count("scanners_with_more_than_65536_modes");
    let r = sut(|| -> Result<(), String> {
        let mut it = scanner.find_iter(&input);
        let mut mode = 0usize;
        for (o, c) in input.char_indices() {
            let tt = match c {
                'a' => 1,
                'b' => 2,
                'c' => 3,
                _ => continue,
            };
            let got = it.next().map(Tok::from);
            let exp = Tok { tt, start: o, end: o + 1 };
            if got != Some(exp) {
                return Err(format!("in mode {} the token at offset {} is {:?}, expected {:?}", mode, o, got, exp));
            }
            let table = trans_of.get(&mode).cloned().unwrap_or_else(|| vec![(1, 0)]);
            if let Some((_, target)) = table.iter().find(|(t, _)| *t == tt) {
                mode = *target;
                st.count("switch_taken");
                if mode > 65_535 {
                    st.count("switch_into_a_mode_numbered_above_65535");
                }
            }
            if it.current_mode() != mode {
                return Err(format!("after the token at offset {} (type {}) current_mode() = {}, the configured transitions give {}", o, tt, it.current_mode(), mode));
            }
            if it.mode_name(mode) != Some(format!("M{}", mode).as_str()) {
                return Err(format!("mode_name({}) = {:?}", mode, it.mode_name(mode)));
            }
        }
        if it.next().is_some() {
            return Err("a token after the last one".to_string());
        }
        Ok(())
    });
    match r {
        Ok(Ok(())) => {
            st.nontrivial(hash_of(&(n, &input)));
            CaseOutcome::Ok
        }
        Ok(Err(e)) => CaseOutcome::Violated(Violation::new(e, case())),
        Err(p) => CaseOutcome::Violated(Violation::new(format!("panic: {}", p), case())),
    }
}

pub fn c06(tier: Tier) -> i32 {
    let ctx = Ctx::new("C06", tier, "exploration");
    let n = ctx.scale(30_000, 2_000_000);
    let mut res = run_cases(&ctx, 1, n, |rng, _i, st| c06_case(rng, st));
    let n2 = ctx.scale(15_000, 1_000_000);
    res.merge(run_cases(&ctx, 2, n2, |rng, _i, st| c06_general_case(rng, st)));
    // stream 4: more than 65 536 modes
    let n4 = ctx.scale(8, 96);
    res.merge(run_cases(&ctx, 4, n4, |rng, _i, st| c06_huge_modes_case(rng, st)));
    // stream 3: the repository's corpora (mode files with their inputs) re-tokenized in lock step
    // by the real scanner and by the derivative-based reference tokenizer with modes and lookaheads
    #[cfg(feature = "hooks")]
    {
        let mut pairs: Vec<(String, String)> = vec![
            ("/repo/scnr/benches/veryl_modes.json".into(), "/repo/scnr/benches/veryl_input.veryl".into()),
            ("/repo/scnr/tests/data/parol.json".into(), "/repo/scnr/benches/input_1.par".into()),
        ];
        if let Ok(rd) = std::fs::read_dir("/repo/scnr/tests/data") {
            let mut fs: Vec<_> = rd.flatten().map(|e| e.path()).filter(|p| p.extension().map_or(false, |e| e == "json") && !p.to_string_lossy().contains("_tokens")).collect();
            fs.sort();
            for f in fs {
                pairs.push((f.to_string_lossy().to_string(), f.with_extension("input").to_string_lossy().to_string()));
            }
        }
        let n3 = pairs.len() as u64;
        res.merge(run_cases(&ctx, 3, n3, |_rng, i, st| {
            let (mf, inf) = &pairs[i as usize];
            let (Ok(mt), Ok(input)) = (std::fs::read_to_string(mf), std::fs::read_to_string(inf)) else { return CaseOutcome::Skipped };
            let Ok(v) = serde_json::from_str::<serde_json::Value>(&mt) else { return CaseOutcome::Skipped };
            let Some(cfg) = crate::checks_tok::cfg_from_json(&v) else {
                st.count("corpus_not_convertible");
                return CaseOutcome::Skipped;
            };
            let scanner = match build_any(&cfg, false) {
                Ok(s) => s,
                Err(e) => return CaseOutcome::Violated(Violation::new(format!("{}: {}", mf, e), json!({"kind": "c06_corpus", "modes": mf}))),
            };
            match sut(|| crate::reftok::check_corpus(&cfg, &scanner, &input)) {
                Ok(Ok((tokens, switches))) => {
                    st.count("corpus_files_retokenized");
                    st.add("corpus_tokens_checked", tokens as u64);
                    st.add("corpus_mode_switches", switches as u64);
                    st.nontrivial(hash_of(&(mf, inf)));
                    CaseOutcome::Ok
                }
                Ok(Err(e)) => CaseOutcome::Violated(Violation::new(format!("{} on {}: {}", mf, inf, e), json!({"kind": "c06_corpus", "modes": mf, "input": inf}))),
                Err(pm) => CaseOutcome::Violated(Violation::new(format!("{} on {}: panic: {}", mf, inf, pm), json!({"kind": "c06_corpus", "modes": mf, "input": inf}))),
            }
        }));
    }
    let report = Report::new(
        "stream 4: scanners of 65 538-65 597 tiny modes (patterns a b c in every mode; the modes 0, 1, 2, 65 535, 65 536, 65 537 and the last two switch among each other), token and mode after every token compared with a table lookup; stream 3: the repository's mode files with their inputs (veryl_modes.json + veryl_input.veryl, parol.json + input_1.par, tests/data/*.json + *.input) re-tokenized in lock step by the real scanner and by a derivative-based reference tokenizer with modes and lookaheads. stream 2: random multi-mode configurations over GENERAL patterns (overlapping languages, lookaheads, token types shared between modes, set_mode mid-stream): every token must be the one the tokenizer rule of the reference semantics gives for the patterns of the model's current mode, and current_mode() must follow the configured transitions. stream 1: random mode graphs (1-4 modes, one case in 30 with 257-300 modes; one in 8 with 4-16 transitions per mode (a sixth of those: 257-300); per mode 1-5 keyword patterns with pairwise distinct first letters so that the expected stream is computable by a 10-line function; token types drawn from a pool shared between modes, incl. values above 65535; 0-3 sorted transitions per mode to existing modes incl. self-loops and entries for token types the mode never produces), 1-3 iterations per scanner with Scanner::set_mode in between, histories of next / peek_n / set_mode / current_mode / mode_name on FindMatches and through WithPositions. Oracle: sequential model (position, mode); every token, every current_mode() reading after every call and every mode_name are compared. Distinct by hash of (configuration, plans).",
    )
    .floor("switch_taken", 10_000)
    .floor("token_without_transition", 10_000)
    .floor("skipped_char", 2000)
    .floor("set_mode_mid_stream", 2000)
    .floor("transition_lookup_hits_later_entry", 1000)
    .floor("transition_lookup_falls_between_entries", 1000)
    .floor("scanner_set_mode_before_find_iter", 1000)
    .floor("iterations_through_with_positions", 1000)
    .floor("switch_taken_from_a_list_of_more_than_8_transitions", 2_000)
    .floor("switch_taken_from_a_list_of_more_than_256_transitions", 200)
    .floor("switch_into_a_mode_numbered_above_255", 150)
    .floor("switch_into_a_mode_numbered_above_65535", 10)
    .floor("cached_sibling_with_other_transitions_built_first", 1000)
    .floor("general_tokens_checked", 20_000)
    .floor("general_switch_to_other_mode", 2_000);
    #[cfg(feature = "hooks")]
    let report = if std::env::var("VERIF_HOOKS").map_or(true, |v| v != "0") { report.floor("corpus_tokens_checked", 10_000) } else { report };
    finish(&ctx, res, report)
}

// ------------------------------------------------------------------------------------------------
// C09
// ------------------------------------------------------------------------------------------------

fn true_pos(input: &str, o: usize) -> (usize, usize) {
    let before = &input.as_bytes()[..o];
    let line = 1 + before.iter().filter(|b| **b == b'\n').count();
    let line_start = before.iter().rposition(|b| *b == b'\n').map_or(0, |i| i + 1);
    (line, o - line_start + 1)
}

fn accepted_pos(input: &str, o: usize) -> Vec<(usize, usize)> {
    let mut v = vec![true_pos(input, o)];
    if o > 0 && input.as_bytes()[o - 1] == b'\n' {
        let (l, c) = true_pos(input, o - 1);
        v.push((l, c + 1));
    }
    v
}

fn gen_c09_cfg(rng: &mut Rng) -> ScannerCfg {
    let pool: Vec<&str> = vec![
        "\\n",
        "\\r\\n|\\r|\\n",
        "[a-c]+",
        "//.*\\n",
        "a\\nb",
        "[^z ]+",
        "é+",
        " +",
        "\"[^\"]*\"",
        "b\\n",
        "€",
        "[a-c]+\\n",
        "\\n\\n",
        ".",
    ];
    let n = rng.range(1, 5);
    let mut chosen: Vec<&str> = Vec::new();
    while chosen.len() < n {
        let s = *rng.pick(&pool);
        if !chosen.contains(&s) {
            chosen.push(s);
        }
    }
    let pats: Vec<RefPattern> = chosen
        .iter()
        .enumerate()
        .map(|(i, s)| RefPattern {
            re: parse_to_ir(s).unwrap(),
            tt: i,
            la: None,
        })
        .collect();
    let mut cfg = ScannerCfg::single(pats);
    // one configuration in three has a second mode with other patterns of the pool under the same
    // token type numbers (a token re-read after set_mode + set_offset may start at the same offset,
    // carry the same type and have another length)
    if rng.chance(1, 3) {
        let n2 = rng.range(1, 4);
        let mut chosen2: Vec<&str> = Vec::new();
        while chosen2.len() < n2 {
            let s = *rng.pick(&pool);
            if !chosen2.contains(&s) {
                chosen2.push(s);
            }
        }
        let pats2 = chosen2.iter().enumerate().map(|(i, s)| RefPattern { re: parse_to_ir(s).unwrap(), tt: i, la: None }).collect();
        cfg.modes.push(ModeCfg { name: "SECOND".to_string(), pats: pats2, trans: vec![] });
    }
    cfg
}

fn gen_c09_input(rng: &mut Rng) -> String {
    let mut s = String::new();
    let pieces = ["a", "b", "abc", "é", "€", "😀", " ", "z", "\n", "\n", "\r\n", "\n\n", "//c\n", "\"a\nb\"", "a\nb", "b\n", "zz", "\r", "a\rb", "\r\r\n"];
    for _ in 0..rng.below(25) {
        s.push_str(pieces[rng.below(pieces.len())]);
    }
    if rng.chance(1, 3) {
        s.push('\n');
    }
    s
}

pub fn c09_case(rng: &mut Rng, st: &mut Stats) -> CaseOutcome {
    let cfg = gen_c09_cfg(rng);
    let input = gen_c09_input(rng);
    let b = boundaries(&input);
    let use_with_positions = rng.chance(1, 2);
    let nops = rng.range(5, 60);
    let scanner = match build_any(&cfg, rng.chance(1, 4)) {
        Ok(s) => s,
        Err(e) => return CaseOutcome::Violated(Violation::new(e, json!({"kind":"c09","cfg":cfg,"input":input}))),
    };
    let mut log: Vec<String> = Vec::new();
    // one history in three runs on a scanner that has already scanned another text (with positions)
    if rng.chance(1, 3) {
        let warm = gen_c09_input(rng);
        let n = sut(|| scanner.find_iter(&warm).with_positions().count());
        if let Err(pm) = n {
            return CaseOutcome::Violated(Violation::new(format!("panic while scanning {:?}: {}", warm, pm), json!({"kind":"c09","cfg":cfg,"input":warm})));
        }
        log.push(format!("(scanner used before on {:?})", warm));
        st.count("histories_on_a_scanner_used_before");
    }
    let r = sut(|| -> Result<(), String> {
        // high-water mark of scanned offsets
        let mut hw = 0usize;
        let mut prev_consumed_newline = false;
        macro_rules! drive {
            ($it:ident, $next:expr, $peek:expr) => {{
                for _ in 0..nops {
                    let r = rng.below(100);
                    if cfg.modes.len() > 1 && rng.chance(1, 12) {
                        // the positions do not depend on the mode the tokens are read in
                        let m = rng.below(cfg.modes.len());
                        ScannerModeSwitcher::set_mode(&mut $it, m);
                        log.push(format!("set_mode({})", m));
                        st.count("set_mode_between_position_checks");
                        continue;
                    }
                    if r >= 92 {
                        // a peek must leave no trace in the positions (where the iterator offers it)
                        let n = rng.range(1, 4);
                        if $peek(&mut $it, n) {
                            st.count("peeks_between_position_checks");
                            log.push(format!("peek_n({})", n));
                        }
                        continue;
                    }
                    if r < 55 {
                        let got: Option<(Tok, (usize, usize), (usize, usize))> = $next(&mut $it);
                        log.push(format!("next -> {:?}", got));
                        match got {
                            Some((t, sp, ep)) => {
                                hw = hw.max(t.end);
                                st.count("token_positions_checked");
                                let tsp = true_pos(&input, t.start);
                                if sp != tsp {
                                    return Err(format!("token {:?}: start position {:?}, true (line, column) of offset {} is {:?}", t, sp, t.start, tsp));
                                }
                                let acc = accepted_pos(&input, t.end);
                                if !acc.contains(&ep) {
                                    return Err(format!("token {:?}: end position {:?}, acceptable for offset {}: {:?}", t, ep, t.end, acc));
                                }
                                if input[t.start..t.end].contains('\n') && !input[t.start..t.end].ends_with('\n') || input[t.start..t.end].matches('\n').count() > 1 {
                                    st.count("multi_line_token");
                                }
                                prev_consumed_newline = input[..t.end].ends_with('\n');
                            }
                            None => {
                                hw = input.len();
                                st.count("exhaustion");
                                if input.ends_with('\n') {
                                    st.count("exhaustion_with_trailing_newline");
                                }
                            }
                        }
                    } else if r < 80 {
                        // position query for an already scanned offset
                        let cands: Vec<usize> = b.iter().cloned().filter(|o| *o <= hw).collect();
                        let o = *rng.pick(&cands);
                        let p = PositionProvider::position(&$it, o);
                        st.count("position_queries");
                        log.push(format!("position({}) -> ({}, {})", o, p.line, p.column));
                        let acc = accepted_pos(&input, o);
                        if !acc.contains(&(p.line, p.column)) {
                            return Err(format!("position({}) = ({}, {}), acceptable: {:?} (scanned up to {})", o, p.line, p.column, acc, hw));
                        }
                    } else {
                        // reset to an already scanned offset
                        let cands: Vec<usize> = b.iter().cloned().filter(|o| *o <= hw).collect();
                        let o = *rng.pick(&cands);
                        $it.set_offset(o);
                        log.push(format!("set_offset({})", o));
                        st.count("reset");
                        if o > 0 && input.as_bytes()[o - 1] == b'\n' {
                            st.count("reset_right_after_newline");
                        }
                        if prev_consumed_newline {
                            st.count("reset_after_consumed_newline");
                        }
                    }
                }
            }};
        }
        if use_with_positions {
            let mut it = scanner.find_iter(&input).with_positions();
            drive!(it, |it: &mut scnr::WithPositions<scnr::FindMatches>| it.next().map(|m| (
                Tok { tt: m.token_type(), start: m.start(), end: m.end() },
                (m.start_position().line, m.start_position().column),
                (m.end_position().line, m.end_position().column)
            )), |_it: &mut scnr::WithPositions<scnr::FindMatches>, _n: usize| false);
        } else {
            let mut it = scanner.find_iter(&input);
            drive!(it, |it: &mut scnr::FindMatches| it.next().map(|m| {
                let sp = PositionProvider::position(&*it, m.start());
                let ep = PositionProvider::position(&*it, m.end());
                (Tok::from(m), (sp.line, sp.column), (ep.line, ep.column))
            }), |it: &mut scnr::FindMatches, n: usize| {
                let _ = it.peek_n(n);
                true
            });
        }
        Ok(())
    });
    st.add("history_ops", nops as u64);
    st.sample(json!({"patterns": cfg.describe(), "input": input, "log": log.iter().take(12).collect::<Vec<_>>()}));
    let case = || json!({"kind": "c09", "cfg": cfg, "patterns": cfg.describe(), "input": input, "with_positions": use_with_positions, "log": log});
    match r {
        Ok(Ok(())) => {
            st.nontrivial(hash_of(&(&cfg, &input, &log)));
            CaseOutcome::Ok
        }
        Ok(Err(e)) => CaseOutcome::Violated(Violation::new(e, case())),
        Err(p) => CaseOutcome::Violated(Violation::new(format!("panic: {}", p), case())),
    }
}

pub fn c09(tier: Tier) -> i32 {
    let ctx = Ctx::new("C09", tier, "exploration");
    let n = ctx.scale(30_000, 2_000_000);
    let mut res = run_cases(&ctx, 1, n, |rng, _i, st| c09_case(rng, st));
    let nbig = ctx.scale(32, 640);
    res.merge(run_cases(&ctx, 2, nbig, |rng, _i, st| crate::checks_scale::c09_big_case(rng, st)));
    let report = Report::new(
        "stream 2: inputs of up to 1.5 MB with more than 65 536 lines, or with lines longer than 65 536 bytes, or both mixed; a complete scan with every token's start and end position checked, position(o) queries for random scanned offsets, up to three resets to earlier offsets, and 200 queries after exhaustion (same oracle, line index by binary search). stream 1: configurations drawn from a pool of line-oriented patterns (newline tokens, tokens spanning several lines, tokens ending in a newline, comments, strings, multi-byte letters, with and without a pattern for \\n so that newlines are also skipped as unmatched), inputs rich in line structure (empty lines, \\r\\n, trailing newline, multi-byte characters, unmatched characters), histories of 5-60 operations: next (through WithPositions and through FindMatches + position), position(o) for already scanned character offsets o, set_offset to already scanned offsets (incl. directly after a consumed newline), exhaustion followed by more queries and resets, and peek_n calls in between (on the FindMatches path). Oracle: true positions computed from the input (line = 1 + number of \\n before the offset, column = byte distance to the line start + 1); start positions must be exact, for an offset directly following a \\n both conventions are accepted for end positions and position(). Distinct by hash of (configuration, input, call log).",
    )
    .floor("reset", 5000)
    .floor("reset_right_after_newline", 1000)
    .floor("exhaustion_with_trailing_newline", 2000)
    .floor("position_queries", 50_000)
    .floor("multi_line_token", 1000)
    .floor("token_positions_checked", 50_000)
    .floor("peeks_between_position_checks", 5_000)
    .floor("histories_on_a_scanner_used_before", 3_000)
    .floor("set_mode_between_position_checks", 3_000)
    .floor("inputs_with_more_than_65536_lines", 4)
    .floor("inputs_with_a_line_longer_than_65536_bytes", 4)
    .floor("big_input_token_positions_checked", 500_000)
    .assume("columns are byte columns (documented by the crate); offsets are character boundaries not beyond what the iterator has scanned");
    finish(&ctx, res, report)
}

// ------------------------------------------------------------------------------------------------
// C12
// ------------------------------------------------------------------------------------------------

pub fn c12_case(rng: &mut Rng, st: &mut Stats) -> CaseOutcome {
    let mut p = GenParams::varied(rng);
    p.max_nodes = 8;
    let la_pct = if rng.chance(1, 3) { 25 } else { 0 };
    let cfg = gen_multi_mode(rng, &p, la_pct, 3);
    if !guard_roundtrip(&cfg) {
        return CaseOutcome::Skipped;
    }
    let res_refs = cfg.all_res();
    let n_inputs = rng.range(1, 3);
    let inputs: Vec<String> = (0..n_inputs)
        .map(|_| gen_input(rng, &res_refs, &p.letters, 30))
        .collect();
    // now and then a crowd of iterators (a fixed-size pool of shared scratch state would show)
    let n_iters = if rng.chance(1, 25) && !cfg!(miri) { rng.range(9, 70) } else { rng.range(2, 5) };
    if n_iters > 8 {
        st.count("interleavings_with_more_than_8_iterators");
    }
    let hp = HistParams {
        max_ops: 25,
        n_modes: cfg.modes.len(),
        allow_set_offset: true,
        allow_beyond: false,
        allow_set_mode: true,
        allow_advance: true,
        allow_peek: true,
        allow_position: true,
    };
    // plan per iterator: (input index, scanner index, ops)
    let two_scanners = rng.chance(1, 2);
    let plans: Vec<(usize, usize, Vec<Op>)> = (0..n_iters)
        .map(|_| {
            let ii = rng.below(n_inputs);
            (ii, if two_scanners { rng.below(2) } else { 0 }, gen_history(rng, &inputs[ii], &hp))
        })
        .collect();
    // schedule: sequence of events
    #[derive(Clone, Debug, serde::Serialize)]
    enum Ev {
        Step(usize),
        Drop(usize),
        ScannerSetMode(usize, usize),
    }
    let mut schedule: Vec<Ev> = Vec::new();
    {
        let mut remaining: Vec<usize> = plans.iter().map(|p| p.2.len()).collect();
        let mut alive: Vec<bool> = vec![true; n_iters];
        loop {
            let live: Vec<usize> = (0..n_iters).filter(|i| alive[*i] && remaining[*i] > 0).collect();
            if live.is_empty() {
                break;
            }
            let r = rng.below(100);
            if r < 85 {
                let i = *rng.pick(&live);
                schedule.push(Ev::Step(i));
                remaining[i] -= 1;
            } else if r < 92 {
                let i = *rng.pick(&live);
                schedule.push(Ev::Drop(i));
                alive[i] = false;
            } else {
                schedule.push(Ev::ScannerSetMode(rng.below(2), rng.below(cfg.modes.len())));
            }
        }
    }
    let case = || json!({"kind": "c12", "cfg": cfg, "patterns": cfg.describe(), "inputs": inputs, "plans": plans, "schedule": schedule, "two_scanners": two_scanners});
    let cached = two_scanners || rng.chance(1, 2);
    let mut scanners: Vec<scnr::Scanner> = Vec::new();
    for _ in 0..(if two_scanners { 2 } else { 1 }) {
        match build_any(&cfg, cached) {
            Ok(s) => scanners.push(s),
            Err(e) => return CaseOutcome::Violated(Violation::new(e, case())),
        }
    }
    // interleaved run
    let mut outs: Vec<Vec<Out>> = vec![Vec::new(); n_iters];
    let r = sut(|| {
        let mut its: Vec<Option<scnr::FindMatches>> = (0..n_iters).map(|_| None).collect();
        let mut peeks: Vec<Option<Peeked>> = vec![None; n_iters];
        let mut cursor = vec![0usize; n_iters];
        let mut dropped = vec![false; n_iters];
        for ev in &schedule {
            match ev {
                Ev::Step(i) => {
                    if dropped[*i] {
                        continue;
                    }
                    if its[*i].is_none() {
                        let (ii, si, _) = &plans[*i];
                        its[*i] = Some(scanners[*si].find_iter(&inputs[*ii]));
                    }
                    let live = its.iter().filter(|x| x.is_some()).count();
                    if live >= 2 {
                        st.count("step_with_two_or_more_live_iterators");
                        let modes: Vec<usize> = its.iter().flatten().map(|it| it.current_mode()).collect();
                        if modes.iter().any(|m| *m != modes[0]) {
                            st.count("step_with_live_iterators_in_different_modes");
                        }
                    }
                    let op = &plans[*i].2[cursor[*i]];
                    cursor[*i] += 1;
                    let out = exec_op(its[*i].as_mut().unwrap(), op, &mut peeks[*i]);
                    outs[*i].push(out);
                }
                Ev::Drop(i) => {
                    if its[*i].is_some() {
                        st.count("iterator_dropped_mid_scan");
                    }
                    its[*i] = None;
                    dropped[*i] = true;
                }
                Ev::ScannerSetMode(si, m) => {
                    let si = *si % scanners.len();
                    scanners[si].set_mode(*m);
                    st.count("scanner_set_mode_during_iterations");
                }
            }
        }
    });
    if let Err(pm) = r {
        return CaseOutcome::Violated(Violation::new(format!("panic in interleaved run: {}", pm), case()));
    }
    // solo replays on a fresh uncached scanner
    for i in 0..n_iters {
        let executed = &plans[i].2[..outs[i].len()];
        let fresh = match build_any(&cfg, false) {
            Ok(s) => s,
            Err(e) => return CaseOutcome::Violated(Violation::new(e, case())),
        };
        // "unaffected ... by peeks": every second projection is replayed without its peeks
        // (advance_to arguments taken from the interleaved run); all remaining outputs must agree.
        if i % 2 == 1 {
            let mut twin_ops: Vec<Op> = Vec::new();
            let mut twin_outs_expected: Vec<Out> = Vec::new();
            for (op, out) in executed.iter().zip(outs[i].iter()) {
                match (op, out) {
                    (Op::PeekN(_), _) => {}
                    (Op::AdvanceToPeeked(_), Out::Advance(Some((arg, _)))) => {
                        twin_ops.push(Op::AdvanceTo(*arg));
                        twin_outs_expected.push(out.clone());
                    }
                    (Op::AdvanceToPeeked(_), _) => {}
                    _ => {
                        twin_ops.push(op.clone());
                        twin_outs_expected.push(out.clone());
                    }
                }
            }
            let solo = match run_history(&fresh, &inputs[plans[i].0], &twin_ops) {
                Ok(o) => o,
                Err((k, pm)) => {
                    return CaseOutcome::Violated(Violation::new(format!("panic in peek-free solo replay op #{}: {}", k, pm), case()))
                }
            };
            st.count("projections_compared_without_peeks");
            if solo != twin_outs_expected {
                let k = solo.iter().zip(twin_outs_expected.iter()).position(|(a, b)| a != b).unwrap_or(0);
                let mut c = case();
                c["iterator"] = json!(i);
                c["peek_free_ops"] = json!(twin_ops);
                return CaseOutcome::Violated(Violation::new(
                    format!(
                        "iterator #{}: operation {:?} returned {:?} in the interleaved run (with peeks) and {:?} when the same calls without the peeks are replayed alone on a fresh scanner",
                        i, twin_ops[k], twin_outs_expected[k], solo[k]
                    ),
                    c,
                ));
            }
            continue;
        }
        let solo = match run_history(&fresh, &inputs[plans[i].0], executed) {
            Ok(o) => o,
            Err((k, pm)) => {
                return CaseOutcome::Violated(Violation::new(format!("panic in solo replay op #{}: {}", k, pm), case()))
            }
        };
        st.count("projections_compared");
        st.add("history_ops", executed.len() as u64);
        if solo != outs[i] {
            let k = solo.iter().zip(outs[i].iter()).position(|(a, b)| a != b).unwrap_or(0);
            let mut c = case();
            c["iterator"] = json!(i);
            c["interleaved_outputs"] = json!(outs[i]);
            c["solo_outputs"] = json!(solo);
            return CaseOutcome::Violated(Violation::new(
                format!(
                    "iterator #{} op #{} ({:?}) returned {:?} in the interleaved run and {:?} when the same calls are replayed alone on a fresh scanner",
                    i, k, executed[k], outs[i][k], solo[k]
                ),
                c,
            ));
        }
    }
    st.nontrivial(hash_of(&(&cfg, &inputs, &plans, format!("{:?}", schedule))));
    st.sample(json!({"patterns": cfg.describe(), "inputs": inputs, "schedule": format!("{:?}", schedule.iter().take(20).collect::<Vec<_>>())}));
    CaseOutcome::Ok
}

/// C12, "inputs scanned earlier" / "a Scanner can be reused for any number of inputs": one buffer
/// is refilled in place with equally long contents and scanned again and again by iterators of one
/// Scanner (some dropped mid-scan); every history must equal its solo replay on a fresh uncached
/// scanner over a separate copy of the content.
pub fn c12_reuse_case(rng: &mut Rng, st: &mut Stats) -> CaseOutcome {
    let mut p = GenParams::varied(rng);
    p.max_nodes = 8;
    let la_pct = if rng.chance(1, 3) { 25 } else { 0 };
    let cfg = gen_multi_mode(rng, &p, la_pct, 3);
    if !guard_roundtrip(&cfg) {
        return CaseOutcome::Skipped;
    }
    let res_refs = cfg.all_res();
    // contents of equal byte length: the first one generated, the others shuffled/padded to fit
    let first = gen_input(rng, &res_refs, &p.letters, 30);
    let target_len = first.len();
    let rounds = rng.range(2, 4);
    let mut contents: Vec<String> = vec![first.clone()];
    for _ in 1..rounds {
        let mut c: String = if rng.chance(1, 2) {
            let mut cs: Vec<char> = first.chars().collect();
            rng.shuffle(&mut cs);
            cs.into_iter().collect()
        } else {
            gen_input(rng, &res_refs, &p.letters, 30)
        };
        while c.len() > target_len {
            c.pop();
        }
        while c.len() < target_len {
            c.push(*rng.pick(&['a', 'b', 'c', ' ']));
        }
        contents.push(c);
    }
    let hp = HistParams {
        max_ops: 20,
        n_modes: cfg.modes.len(),
        allow_set_offset: true,
        allow_beyond: false,
        allow_set_mode: true,
        allow_advance: true,
        allow_peek: true,
        allow_position: true,
    };
    let plans: Vec<Vec<Op>> = contents.iter().map(|c| gen_history(rng, c, &hp)).collect();
    let case = || json!({"kind": "c12_reuse", "cfg": cfg, "patterns": cfg.describe(), "contents": contents, "plans": plans});
    let cached = rng.chance(1, 2);
    let scanner = match build_any(&cfg, cached) {
        Ok(s) => s,
        Err(e) => return CaseOutcome::Violated(Violation::new(e, case())),
    };
    let mut buffer = String::with_capacity(target_len + 8);
    for (k, (content, ops)) in contents.iter().zip(plans.iter()).enumerate() {
        buffer.clear();
        buffer.push_str(content);
        let got = match run_history(&scanner, &buffer, ops) {
            Ok(o) => o,
            Err((i, pm)) => return CaseOutcome::Violated(Violation::new(format!("panic in round {} op #{}: {}", k, i, pm), case())),
        };
        let fresh = match build_any(&cfg, false) {
            Ok(s) => s,
            Err(e) => return CaseOutcome::Violated(Violation::new(e, case())),
        };
        let copy = content.clone();
        let solo = match run_history(&fresh, &copy, ops) {
            Ok(o) => o,
            Err((i, pm)) => return CaseOutcome::Violated(Violation::new(format!("panic in solo replay round {} op #{}: {}", k, i, pm), case())),
        };
        st.count("buffer_reuse_rounds_compared");
        if got != solo {
            let i = got.iter().zip(solo.iter()).position(|(a, b)| a != b).unwrap_or(0);
            return CaseOutcome::Violated(Violation::new(
                format!(
                    "round {} over the refilled buffer {:?}: operation #{} ({:?}) returned {:?}, the same calls on a fresh scanner over a copy of that content return {:?} (contents scanned earlier in the same buffer: {:?})",
                    k, content, i, ops[i], got[i], solo[i], &contents[..k]
                ),
                case(),
            ));
        }
    }
    st.nontrivial(hash_of(&(&cfg, &contents, &plans)));
    CaseOutcome::Ok
}

pub fn c12(tier: Tier) -> i32 {
    let ctx = Ctx::new("C12", tier, "exploration");
    let n = ctx.scale(15_000, 1_000_000);
    let mut res = run_cases(&ctx, 1, n, |rng, _i, st| c12_case(rng, st));
    let n2 = ctx.scale(10_000, 500_000);
    res.merge(run_cases(&ctx, 2, n2, |rng, _i, st| c12_reuse_case(rng, st)));
    let n3 = ctx.scale(32, 400);
    res.merge(run_cases(&ctx, 3, n3, |rng, _i, st| crate::checks_scale::c12_work_sweep_case(rng, st)));
    let report = Report::new(
        "stream 3: between two scans of one probe text the same scanner, another scanner or another iterator (while the probing iterator is alive) scans W characters (unmatched / one long token / W short tokens), W swept over +-70 around 128, 256, 512, 16384, 21845, 32768 and 65536; the probe must tokenize the same every time. stream 2: one buffer refilled in place with 2-4 equally long contents and scanned by successive iterators of one Scanner (random histories, some ending mid-scan), each compared with its solo replay on a fresh uncached scanner over a separate copy. stream 1: 2-5 iterators (one case in 25: 9-70) over 1-3 inputs created lazily from one Scanner or from two build() results of one configuration (shared cached compilation), random interleavings of all iterator operations (next, peek_n, advance_to, set_offset, set_mode, position, current_mode), early drops, Scanner::set_mode between and during iterations. Oracle: the projection of the interleaved history onto each iterator must equal the solo replay of that projection on a fresh uncached scanner (all outputs compared). Distinct by hash of (configuration, inputs, plans, schedule).",
    )
    .floor("step_with_two_or_more_live_iterators", 50_000)
    .floor("interleavings_with_more_than_8_iterators", 200)
    .floor("probe_scans_after_swept_amount_of_work", 20_000)
    .floor("step_with_live_iterators_in_different_modes", 10_000)
    .floor("iterator_dropped_mid_scan", 2000)
    .floor("scanner_set_mode_during_iterations", 2000)
    .floor("projections_compared", 15_000)
    .floor("projections_compared_without_peeks", 10_000)
    .floor("buffer_reuse_rounds_compared", 15_000);
    finish(&ctx, res, report)
}
