//! Reference tokenizer for long inputs (derivative automaton over atoms): the tokenizer rule of
//! DESIGN 4.2 with modes and lookaheads, without the 127 character limit of the denotational
//! matcher. Used to re-tokenize the repository's corpora.
#![cfg(feature = "hooks")]
use crate::cfg::*;
use crate::hist::transition_of;
use crate::ir::*;
use crate::lang::{leaf_set, Deriv, Id, NULL};
use crate::refsem::{CharSet, NSCALARS};
use std::collections::HashMap;
use std::sync::Arc;

fn collect_leaves<'a>(re: &'a Re, out: &mut Vec<&'a Re>) {
    match re {
        Re::Lit(..) | Re::Dot | Re::Class(_) | Re::Perl(..) | Re::Uni(..) => out.push(re),
        Re::Cat(xs) | Re::Alt(xs) => xs.iter().for_each(|x| collect_leaves(x, out)),
        Re::Star(x) | Re::Plus(x) | Re::Opt(x) | Re::Rep(x, _, _) | Re::Group(_, x) => collect_leaves(x, out),
        _ => {}
    }
}

/// Atom number of every scalar value for the partition induced by `sets`, and the membership
/// table membership[set][atom].
fn atom_map(sets: &[Arc<CharSet>]) -> (Vec<u16>, Vec<Vec<bool>>) {
    let k = sets.len();
    let mut map = vec![0u16; NSCALARS];
    let mut index: HashMap<Vec<bool>, u16> = HashMap::new();
    let mut sigs: Vec<Vec<bool>> = Vec::new();
    let mut last_sig: Vec<bool> = Vec::new();
    let mut last_atom: u16 = 0;
    for cp in 0..NSCALARS as u32 {
        let Some(c) = char::from_u32(cp) else { continue };
        let sig: Vec<bool> = sets.iter().map(|s| s.has(c)).collect();
        let a = if !sigs.is_empty() && sig == last_sig {
            last_atom
        } else if let Some(a) = index.get(&sig) {
            *a
        } else {
            let a = sigs.len() as u16;
            index.insert(sig.clone(), a);
            sigs.push(sig.clone());
            a
        };
        last_sig = sig;
        last_atom = a;
        map[cp as usize] = a;
    }
    let membership = (0..k).map(|i| sigs.iter().map(|s| s[i]).collect()).collect();
    (map, membership)
}

struct RefPat {
    id: Id,
    tt: usize,
    la: Option<(bool, Id)>,
}

pub struct RefTokenizer {
    d: Deriv,
    atom_of: Vec<u16>,
    modes: Vec<Vec<RefPat>>,
}

/// One step of the reference: the start (character index) of the next token and the acceptable
/// (end character index, token type) pairs, or None if no further token exists.
pub struct Expected {
    pub start: usize,
    pub allowed: Vec<(usize, usize)>,
    /// every candidate (end, token type) whose lookahead condition holds, whatever its extent
    pub satisfied: Vec<(usize, usize)>,
}

impl RefTokenizer {
    pub fn new(cfg: &ScannerCfg) -> RefTokenizer {
        let mut leaves: Vec<&Re> = Vec::new();
        for re in cfg.all_res() {
            collect_leaves(re, &mut leaves);
        }
        let mut leaf_index: HashMap<String, u32> = HashMap::new();
        let mut sets: Vec<Arc<CharSet>> = Vec::new();
        for l in &leaves {
            let key = l.to_syntax();
            if !leaf_index.contains_key(&key) {
                leaf_index.insert(key, sets.len() as u32);
                sets.push(leaf_set(l));
            }
        }
        let (atom_of, membership) = atom_map(&sets);
        let mut d = Deriv::new();
        d.leaf_has = membership;
        let mut leaf_of = |re: &Re| -> u32 { leaf_index[&re.to_syntax()] };
        let modes = cfg
            .modes
            .iter()
            .map(|m| {
                m.pats
                    .iter()
                    .map(|p| RefPat {
                        id: d.from_re(&p.re, &mut leaf_of),
                        tt: p.tt,
                        la: p.la.as_ref().map(|(pos, la)| (*pos, d.from_re(la, &mut leaf_of))),
                    })
                    .collect()
            })
            .collect();
        RefTokenizer { d, atom_of, modes }
    }

    /// Longest match of `id` starting at character index `from` (end index), if any non-empty one.
    fn longest(&mut self, id: Id, chars: &[char], from: usize) -> Option<usize> {
        let mut cur = id;
        let mut best = None;
        for k in from..chars.len() {
            cur = self.d.deriv(cur, self.atom_of[chars[k] as usize] as u32);
            if cur == NULL {
                break;
            }
            if self.d.is_nullable(cur) {
                best = Some(k + 1);
            }
        }
        best
    }

    pub fn next(&mut self, chars: &[char], off: &[usize], mut pos: usize, mode: usize) -> Option<Expected> {
        let n = chars.len();
        while pos < n {
            // all (pattern, end) with the pattern matching chars[pos..end]
            let npats = self.modes[mode].len();
            let mut ids: Vec<Id> = self.modes[mode].iter().map(|p| p.id).collect();
            let mut cands: Vec<(usize, usize, usize)> = Vec::new(); // (pattern, end, extent)
            let mut la_cache: HashMap<(usize, usize), Option<usize>> = HashMap::new();
            for k in pos..n {
                let a = self.atom_of[chars[k] as usize] as u32;
                let mut alive = false;
                for i in 0..npats {
                    if ids[i] == NULL {
                        continue;
                    }
                    ids[i] = self.d.deriv(ids[i], a);
                    if ids[i] == NULL {
                        continue;
                    }
                    alive = true;
                    if self.d.is_nullable(ids[i]) {
                        let end = k + 1;
                        let own = off[end] - off[pos];
                        match self.modes[mode][i].la {
                            None => cands.push((i, end, own)),
                            Some((positive, la_id)) => {
                                let far = match la_cache.get(&(la_id as usize, end)) {
                                    Some(f) => *f,
                                    None => {
                                        let f = self.longest(la_id, chars, end);
                                        la_cache.insert((la_id as usize, end), f);
                                        f
                                    }
                                };
                                match (positive, far) {
                                    (true, Some(f)) => cands.push((i, end, own + off[f] - off[end])),
                                    (false, None) => cands.push((i, end, own)),
                                    _ => {}
                                }
                            }
                        }
                    }
                }
                if !alive {
                    break;
                }
            }
            if cands.is_empty() {
                pos += 1;
                continue;
            }
            let max_extent = cands.iter().map(|c| c.2).max().unwrap();
            let first = cands.iter().filter(|c| c.2 == max_extent).map(|c| c.0).min().unwrap();
            let allowed = cands
                .iter()
                .filter(|c| c.2 == max_extent && c.0 == first)
                .map(|c| (c.1, self.modes[mode][c.0].tt))
                .collect();
            let satisfied = cands.iter().map(|c| (c.1, self.modes[mode][c.0].tt)).collect();
            return Some(Expected { start: pos, allowed, satisfied });
        }
        None
    }
}

/// Re-tokenizes `input` with the real scanner and with the reference, in lock step (the mode
/// follows the configured transitions on the reported token types).
pub fn check_corpus(cfg: &ScannerCfg, scanner: &scnr::Scanner, input: &str) -> Result<(usize, usize), String> {
    check_corpus_with(cfg, scanner, input, false)
}

/// As check_corpus, but judging only what C04 states: every reported token is one of the candidates
/// whose lookahead condition holds (not necessarily the selected one), it starts at the first position
/// that has such a candidate, and the scan continues at its end.
pub fn check_corpus_gate(cfg: &ScannerCfg, scanner: &scnr::Scanner, input: &str) -> Result<(usize, usize), String> {
    check_corpus_with(cfg, scanner, input, true)
}

fn check_corpus_with(cfg: &ScannerCfg, scanner: &scnr::Scanner, input: &str, gate_only: bool) -> Result<(usize, usize), String> {
    use scnr::ScannerModeSwitcher;
    let chars: Vec<char> = input.chars().collect();
    let mut off: Vec<usize> = input.char_indices().map(|(i, _)| i).collect();
    off.push(input.len());
    let mut byte_to_char: HashMap<usize, usize> = HashMap::with_capacity(off.len());
    for (i, o) in off.iter().enumerate() {
        byte_to_char.insert(*o, i);
    }
    let mut rt = RefTokenizer::new(cfg);
    let mut it = scanner.find_iter(input);
    let mut pos = 0usize;
    let mut mode = 0usize;
    let mut tokens = 0usize;
    let mut switches = 0usize;
    loop {
        let got = it.next();
        let exp = rt.next(&chars, &off, pos, mode);
        match (got, exp) {
            (None, None) => break,
            (Some(m), None) => return Err(format!("token #{} ({}, {}..{}) reported in mode {} where the reference finds nothing more", tokens, m.token_type(), m.start(), m.end(), mode)),
            (None, Some(e)) => return Err(format!("no token #{} although the reference finds one at offset {} in mode {} (types/ends {:?})", tokens, off[e.start], mode, e.allowed)),
            (Some(m), Some(e)) => {
                let acceptable = if gate_only { &e.satisfied } else { &e.allowed };
                let ok = m.start() == off[e.start] && acceptable.iter().any(|(end, tt)| off[*end] == m.end() && *tt == m.token_type());
                if !ok {
                    return Err(format!(
                        "token #{} is (type {}, {}..{}) {:?} in mode {}; the rule gives start {} and (end, type) in {:?}",
                        tokens,
                        m.token_type(),
                        m.start(),
                        m.end(),
                        {
                            let text = input.get(m.start()..m.end()).unwrap_or("?");
                            if text.chars().count() > 60 {
                                format!("{}... ({} bytes)", text.chars().take(60).collect::<String>(), text.len())
                            } else {
                                text.to_string()
                            }
                        },
                        mode,
                        off[e.start],
                        acceptable.iter().map(|(end, tt)| (off[*end], *tt)).collect::<Vec<_>>()
                    ));
                }
                tokens += 1;
                if let Some(t) = transition_of(&cfg.modes[mode], m.token_type()) {
                    if t != mode {
                        switches += 1;
                    }
                    mode = t;
                }
                if it.current_mode() != mode {
                    return Err(format!("after token #{} current_mode() = {}, the configured transitions give {}", tokens - 1, it.current_mode(), mode));
                }
                pos = *byte_to_char.get(&m.end()).ok_or_else(|| format!("token end {} is not on a character boundary", m.end()))?;
            }
        }
    }
    Ok((tokens, switches))
}
