//! C02 (compiled automaton = pattern languages, for every string) and C03 (minimization preserves
//! what is recognised): offline checkers over artefacts recorded from real builds (hooks H1, H2).
#![cfg(feature = "hooks")]
use crate::cfg::*;
use crate::checks_tok::cfg_from_json;
use crate::gen::*;
use crate::hist::gen_multi_mode;
use crate::ir::*;
use crate::lang::*;
use crate::monitor::*;
use crate::refsem::{CharSet, RefPattern};
use crate::rng::Rng;
use scnr::verif_hooks::AutomatonDump;
use serde_json::{json, Value};
use std::collections::HashMap;
use std::sync::Arc;

fn collect_leaves<'a>(re: &'a Re, out: &mut Vec<&'a Re>) {
    match re {
        Re::Lit(..) | Re::Dot | Re::Class(_) | Re::Perl(..) | Re::Uni(..) => out.push(re),
        Re::Cat(xs) | Re::Alt(xs) => xs.iter().for_each(|x| collect_leaves(x, out)),
        Re::Star(x) | Re::Plus(x) | Re::Opt(x) | Re::Rep(x, _, _) | Re::Group(_, x) => {
            collect_leaves(x, out)
        }
        Re::Empty | Re::Raw(_) => {}
    }
}

#[derive(PartialEq, Eq, Clone, Copy)]
pub enum Which {
    C02,
    C03,
}

fn all_accept_as_zero(a: &AutomatonDump) -> AutomatonDump {
    let mut b = a.clone();
    for x in b.accepting.iter_mut() {
        if x.is_some() {
            *x = Some(0);
        }
    }
    b
}

/// Builds the configuration with the minimizer recorder armed and runs the checker of `which`.
pub fn lang_check_cfg(cfg: &ScannerCfg, which: Which, st: &mut Stats) -> Result<(), Violation> {
    let case = |extra: Value| json!({"kind": "lang", "cfg": cfg, "patterns": cfg.describe(), "extra": extra});
    scnr::verif_hooks::minimizer_take();
    scnr::verif_hooks::minimizer_arm(true);
    let built = sut(|| cfg.build_uncached());
    scnr::verif_hooks::minimizer_arm(false);
    let pairs = scnr::verif_hooks::minimizer_take();
    let scanner = match built {
        Err(p) => return Err(Violation::new(format!("panic while building: {}", p), case(json!(null)))),
        Ok(Err(e)) => {
            return Err(Violation::new(
                format!("build returned an error for supported constructs: {}", e),
                case(json!(null)),
            ))
        }
        Ok(Ok(s)) => s,
    };
    st.count("programs_built");
    let dump = scanner.verif_dump();
    let class_count = scanner.verif_class_count();
    if class_count >= 50 {
        st.count("program_with_ge50_classes");
    }
    let t0 = std::time::Instant::now();
    let impl_sets: Vec<Arc<CharSet>> = class_sets_of(&scanner)
        .map_err(|e| Violation::new(e, case(json!(null))))?;
    st.add("us_impl_class_sets", t0.elapsed().as_micros() as u64);

    if which == Which::C03 {
        // expected number of minimizer calls: one per mode plus one per lookahead
        let expected: usize = cfg.modes.iter().map(|m| 1 + m.pats.iter().filter(|p| p.la.is_some()).count()).sum();
        if pairs.len() != expected {
            return Err(Violation::new(
                format!("hook H2 recorded {} minimizer calls, expected {} (one per mode and lookahead)", pairs.len(), expected),
                case(json!(null)),
            ).with_signature("harness-hook-count"));
        }
        let mut atoms_cache: Option<Atoms> = None;
        for (pi, (before, after)) in pairs.iter().enumerate() {
            st.count("minimizer_pairs");
            if after.states.len() < before.states.len() {
                st.count("pairs_where_states_were_removed");
            }
            let ntypes = {
                let mut v: Vec<u64> = before.accepting.iter().flatten().cloned().collect();
                v.sort();
                v.dedup();
                v.len()
            };
            if ntypes >= 2 {
                st.count("pairs_with_ge2_accepting_types");
            }
            if after.states.len() > before.states.len() {
                return Err(Violation::new(
                    format!("minimizer call #{}: {} states before, {} after", pi, before.states.len(), after.states.len()),
                    case(json!({"before": format!("{:?}", before), "after": format!("{:?}", after)})),
                ));
            }
            check_structure(after, class_count, &format!("minimized automaton #{}", pi))
                .map_err(|e| Violation::new(e, case(json!({"after": format!("{:?}", after)}))))?;
            let n = max_class_id(before).max(max_class_id(after)).max(1);
            let sym = symbolic_membership(n);
            match pair_equiv(before, &sym, after, &sym, n, 400_000) {
                PairResult::Equivalent { product_states } => {
                    st.add("pair_product_states", product_states as u64);
                    st.count("pairs_equivalent_at_symbol_level");
                }
                PairResult::Budget => {
                    st.count("pairs_budget_exhausted");
                }
                PairResult::Different { path, .. } => {
                    // Only a difference over characters is a violation: a minimizer that merged
                    // using class semantics would be correct.
                    st.count("pairs_rechecked_at_atom_level");
                    if atoms_cache.is_none() {
                        atoms_cache = Some(atoms_of(&impl_sets));
                    }
                    let atoms = atoms_cache.as_ref().unwrap();
                    let has = &atoms.membership;
                    match pair_equiv(before, has, after, has, atoms.reps.len(), 400_000) {
                        PairResult::Equivalent { .. } => {}
                        PairResult::Budget => st.count("pairs_budget_exhausted"),
                        PairResult::Different { path: p2, acc_a, acc_b } => {
                            let w: String = p2.iter().map(|x| atoms.reps[*x as usize]).collect();
                            return Err(Violation::new(
                                format!(
                                    "minimizer call #{}: on the string {:?} the automaton before minimization accepts token types {:?}, the minimized one {:?} (class path at symbol level: {:?})",
                                    pi, w, acc_a, acc_b, path
                                ),
                                case(json!({"before": format!("{:?}", before), "after": format!("{:?}", after)})),
                            ));
                        }
                    }
                }
            }
        }
        return Ok(());
    }

    // C02: product exploration against the reference automaton
    let mut leaves: Vec<&Re> = Vec::new();
    for re in cfg.all_res() {
        collect_leaves(re, &mut leaves);
    }
    let mut leaf_index: HashMap<String, u32> = HashMap::new();
    let mut leaf_sets: Vec<Arc<CharSet>> = Vec::new();
    for l in &leaves {
        let key = l.to_syntax();
        if !leaf_index.contains_key(&key) {
            leaf_index.insert(key, leaf_sets.len() as u32);
            leaf_sets.push(leaf_set(l));
        }
    }
    st.add("us_leaf_sets", t0.elapsed().as_micros() as u64);
    let mut all = impl_sets.clone();
    all.extend(leaf_sets.iter().cloned());
    let atoms = atoms_of(&all);
    st.add("us_atoms", t0.elapsed().as_micros() as u64);
    st.add("atoms", atoms.reps.len() as u64);
    let impl_has: Vec<Vec<bool>> = atoms.membership[..impl_sets.len()].to_vec();
    let mut d = Deriv::new();
    d.leaf_has = atoms.membership[impl_sets.len()..].to_vec();
    {
        // overlapping classes?
        let mut overl = false;
        for a in 0..atoms.reps.len() {
            if impl_has.iter().filter(|h| h[a]).count() >= 2 {
                overl = true;
            }
        }
        if overl {
            st.count("program_with_overlapping_classes");
        }
    }
    if dump.len() != cfg.modes.len() {
        return Err(Violation::new(format!("{} modes configured, {} compiled", cfg.modes.len(), dump.len()), case(json!(null))));
    }
    let mut leaf_of = |re: &Re| -> u32 { leaf_index[&re.to_syntax()] };
    for (mi, (mode, md)) in cfg.modes.iter().zip(dump.iter()).enumerate() {
        check_structure(&md.automaton, class_count, &format!("mode {}", mi))
            .map_err(|e| Violation::new(e, case(json!({"mode": mi}))))?;
        let pats: Vec<(Id, u64)> = mode
            .pats
            .iter()
            .map(|p| (d.from_re(&p.re, &mut leaf_of), p.tt as u64))
            .collect();
        match explore_vs_patterns(&md.automaton, &impl_has, &mut d, &pats, &atoms, 300_000) {
            Explore::Equal(s) => {
                st.add("product_states", s.product_states as u64);
                st.add("product_transitions", s.transitions as u64);
                st.count("automata_conclusive");
            }
            Explore::Budget(_) => st.count("automata_budget_exhausted"),
            Explore::Different { witness, impl_accepts, ref_accepts, .. } => {
                return Err(Violation::new(
                    format!(
                        "mode {}: after reading {:?} the compiled automaton accepts token types {:?} but the patterns matching that string have token types {:?}",
                        mi, witness, impl_accepts, ref_accepts
                    ),
                    case(json!({"mode": mi, "witness": witness})),
                )
                .with_signature(format!(
                    "{} language mismatch",
                    if cfg.all_res().iter().any(|r| r.has_empty_first_alternative()) { "[empty-first-alternative]" } else { "" }
                )));
            }
        }
        // lookaheads
        let mut expected_las: Vec<(u64, bool)> = mode
            .pats
            .iter()
            .filter_map(|p| p.la.as_ref().map(|l| (p.tt as u64, l.0)))
            .collect();
        expected_las.sort();
        let got_las: Vec<(u64, bool)> = md.automaton.lookaheads.iter().map(|l| (l.0, l.1)).collect();
        if expected_las != got_las {
            return Err(Violation::new(
                format!("mode {}: lookaheads (token type, is_positive) configured {:?}, compiled {:?}", mi, expected_las, got_las),
                case(json!({"mode": mi})),
            ));
        }
        for (tt, _, la_auto) in &md.automaton.lookaheads {
            let p = mode.pats.iter().find(|p| p.tt as u64 == *tt && p.la.is_some()).unwrap();
            let la_re = &p.la.as_ref().unwrap().1;
            let id = d.from_re(la_re, &mut leaf_of);
            let norm = all_accept_as_zero(la_auto);
            st.count("lookahead_automata_checked");
            match explore_vs_patterns(&norm, &impl_has, &mut d, &[(id, 0)], &atoms, 300_000) {
                Explore::Equal(s) => {
                    st.add("product_states", s.product_states as u64);
                    st.count("automata_conclusive");
                }
                Explore::Budget(_) => st.count("automata_budget_exhausted"),
                Explore::Different { witness, impl_accepts, .. } => {
                    return Err(Violation::new(
                        format!(
                            "mode {}, lookahead of token type {}: the string {:?} is {} by the compiled lookahead automaton but {} by the lookahead pattern {:?}",
                            mi, tt, witness,
                            if impl_accepts.is_empty() { "rejected" } else { "accepted" },
                            if impl_accepts.is_empty() { "matched" } else { "not matched" },
                            la_re.to_syntax()
                        ),
                        case(json!({"mode": mi, "witness": witness})),
                    ));
                }
            }
        }
        if !md.automaton.lookaheads.is_empty() {
            st.count("program_with_lookahead");
        }
    }
    Ok(())
}

fn synthetic_minimizer_shapes(rng: &mut Rng) -> ScannerCfg {
    synthetic_minimizer_shape_of(rng, None)
}

fn synthetic_minimizer_shape_of(rng: &mut Rng, force: Option<usize>) -> ScannerCfg {
    let lit = |c: char| Re::Lit(c, LitStyle::Verbatim);
    let word = |s: &str| Re::Cat(s.chars().map(lit).collect());
    let ab = || Re::Class(Class { neg: false, set: CSet::Union(vec![Item::Range('a', 'b')]) });
    let kind = force.unwrap_or_else(|| rng.below(15));
    match kind {
        // wide states: x(a|b|...|q)z | y(a|b|...|p)z - two states with 17-40 transitions each that
        // differ in one or two of them only (a signature that is cut off, hashed or compared in
        // part does not see the difference)
        13 | 14 => {
            let pool: Vec<char> = "abcdefghijklmnopqrstuvwABCDEFGHIJKLMNOPQRSTUVW".chars().collect();
            let n = rng.range(17, 40);
            let letters: Vec<char> = pool[..n].to_vec();
            let tail = ["z", "zz", "1"][rng.below(3)];
            let mk = |ls: &[char]| -> Re {
                let alts: Vec<Re> = ls.iter().map(|l| lit(*l)).collect();
                Re::Group(GroupKind::NonCapture, Box::new(Re::Alt(alts)))
            };
            let mut fewer = letters.clone();
            for _ in 0..rng.range(1, 2) {
                let k = rng.below(fewer.len());
                fewer.remove(k);
            }
            let (first, second) = if rng.chance(1, 2) { (letters.clone(), fewer) } else { (fewer, letters.clone()) };
            let bx = Re::Cat(vec![lit('x'), mk(&first), word(tail)]);
            let by = Re::Cat(vec![lit('y'), mk(&second), word(tail)]);
            if rng.chance(1, 2) {
                ScannerCfg::single(vec![RefPattern { re: Re::Alt(vec![bx, by]), tt: 0, la: None }])
            } else {
                ScannerCfg::single(vec![RefPattern { re: bx, tt: 4, la: None }, RefPattern { re: by, tt: 4, la: None }])
            }
        }
        // redistribution: x(..)|y(..) where both brackets use the same second letters and the same
        // tails, but assign the tails to the letters differently - the states after x and after y
        // have the same classes and reach the same groups, only the association differs
        // (x(ac|bd)|y(ad|bc), x(a1|a2|b3)|y(a1|b2|b3), x(a|b)c|yac are instances)
        11 | 12 => {
            let mut letters = vec!['a', 'b', 'c'];
            rng.shuffle(&mut letters);
            letters.truncate(rng.range(2, 3));
            let ntails = rng.range(2, 4);
            let tail_pool = ["1", "2", "3", "4", "12", "c", "cc"];
            let tails: Vec<&str> = (0..ntails).map(|_| tail_pool[rng.below(tail_pool.len())]).collect();
            let heads = ['x', 'y', 'z'];
            let nheads = rng.range(2, 3);
            let mut branches: Vec<Re> = Vec::new();
            for h in heads.iter().take(nheads) {
                let mut alts: Vec<Re> = Vec::new();
                for t in &tails {
                    let l = *rng.pick(&letters);
                    let mut w = String::new();
                    w.push(l);
                    w.push_str(t);
                    let r = word(&w);
                    if !alts.contains(&r) {
                        alts.push(r);
                    }
                }
                let inner = if alts.len() == 1 { alts.pop().unwrap() } else { Re::Group(GroupKind::NonCapture, Box::new(Re::Alt(alts))) };
                branches.push(Re::Cat(vec![lit(*h), inner]));
            }
            match rng.below(3) {
                // one pattern
                0 => ScannerCfg::single(vec![RefPattern { re: Re::Alt(branches), tt: 0, la: None }]),
                // one pattern per head, one token type
                1 => ScannerCfg::single(branches.into_iter().map(|re| RefPattern { re, tt: 5, la: None }).collect()),
                // as a lookahead automaton
                _ => ScannerCfg::single(vec![
                    RefPattern { re: lit('k'), tt: 8, la: Some((rng.chance(1, 2), Re::Alt(branches))) },
                    RefPattern { re: lit('k'), tt: 9, la: None },
                ]),
            }
        }
        // several one-character patterns sharing ONE token type next to periodic words (b-an-an-a,
        // ====, ababab): the refinement needs one round per period, and the accepting groups of
        // the initial partition are fewer than the patterns
        9 | 10 => {
            let k = rng.range(2, 5);
            let singles = [',', ';', ':', '.', '!', '?'];
            let mut pats: Vec<RefPattern> = (0..k).map(|i| RefPattern { re: lit(singles[i]), tt: 1, la: None }).collect();
            let nwords = rng.range(1, 2);
            for j in 0..nwords {
                let unit = ["an", "ab", "a", "=", "xy", "é"][rng.below(6)];
                // a few periods, now and then very many (one refinement round per period)
                let reps = if rng.chance(1, 10) { *rng.pick(&[33usize, 40, 65, 70, 130]) } else { rng.range(2, 4) };
                let mut w = String::new();
                if rng.chance(1, 2) {
                    w.push('b');
                }
                for _ in 0..reps {
                    w.push_str(unit);
                }
                if rng.chance(1, 2) {
                    w.push(unit.chars().next().unwrap());
                }
                let tt = if rng.chance(1, 3) { 1 } else { 2 + j };
                let at = rng.below(pats.len() + 1);
                // keep patterns of one token type adjacent (the stated bound of the reference)
                let at = if tt == 1 { at.min(k) } else { pats.len() };
                pats.insert(at, RefPattern { re: word(&w), tt, la: None });
            }
            ScannerCfg::single(pats)
        }
        // random finite languages: words of 2-4 letters, 2-3 letters to choose from per position, a
        // random subset of all such words, spread over 1-3 patterns, written flat or factored by
        // the first letter. The tries of such sets are full of states that differ only in WHICH
        // class leads to WHICH continuation (x(ac|bd)|y(ad|bc)): what the refinement must keep apart.
        6..=8 => {
            let len = rng.range(2, 4);
            let alpha: Vec<Vec<char>> = (0..len)
                .map(|_| {
                    let mut v = vec!['a', 'b', 'c', 'd', 'e', 'f'];
                    rng.shuffle(&mut v);
                    v.truncate(rng.range(2, 3));
                    v
                })
                .collect();
            let mut words: Vec<String> = vec![String::new()];
            for pos in &alpha {
                let mut next = Vec::new();
                for w in &words {
                    for c in pos {
                        let mut x = w.clone();
                        x.push(*c);
                        next.push(x);
                    }
                }
                words = next;
            }
            let npats = rng.range(1, 5);
            let mut per: Vec<Vec<String>> = vec![Vec::new(); npats];
            for w in words {
                if rng.chance(1, 2) {
                    per[rng.below(npats)].push(w);
                }
            }
            for (i, v) in per.iter_mut().enumerate() {
                if v.is_empty() {
                    v.push(["ab", "ba", "cd"][i % 3].to_string());
                }
            }
            let factored = rng.chance(1, 2);
            let loop_on_last = rng.chance(1, 4);
            // now and then all patterns report one token type (then only the language matters)
            let same_type = rng.chance(1, 3);
            let mk_word = |w: &str| -> Re {
                let mut items: Vec<Re> = w.chars().map(lit).collect();
                if loop_on_last {
                    let last = items.pop().unwrap();
                    items.push(Re::Plus(Box::new(last)));
                }
                if items.len() == 1 { items.pop().unwrap() } else { Re::Cat(items) }
            };
            let pats = per
                .iter()
                .enumerate()
                .map(|(i, ws)| {
                    let re = if factored {
                        // group by first letter: x(..|..)|y(..|..)
                        let mut firsts: Vec<char> = ws.iter().map(|w| w.chars().next().unwrap()).collect();
                        firsts.sort();
                        firsts.dedup();
                        let branches: Vec<Re> = firsts
                            .iter()
                            .map(|f| {
                                let tails: Vec<Re> = ws.iter().filter(|w| w.starts_with(*f)).map(|w| mk_word(&w[1..])).collect();
                                let tail = if tails.len() == 1 { tails.into_iter().next().unwrap() } else { Re::Group(GroupKind::NonCapture, Box::new(Re::Alt(tails))) };
                                Re::Cat(vec![lit(*f), tail])
                            })
                            .collect();
                        if branches.len() == 1 { branches.into_iter().next().unwrap() } else { Re::Alt(branches) }
                    } else {
                        let bs: Vec<Re> = ws.iter().map(|w| mk_word(w)).collect();
                        if bs.len() == 1 { bs.into_iter().next().unwrap() } else { Re::Alt(bs) }
                    };
                    RefPattern { re, tt: if same_type { 7 } else { i + 1 }, la: None }
                })
                .collect();
            ScannerCfg::single(pats)
        }
        // (a|b)*abb style: many equivalent states
        0 => {
            let k = rng.range(1, 4);
            let mut tail = vec![Re::Star(Box::new(Re::Alt(vec![lit('a'), lit('b')])))];
            for _ in 0..k {
                tail.push(if rng.chance(1, 2) { lit('a') } else { lit('b') });
            }
            ScannerCfg::single(vec![RefPattern { re: Re::Cat(tail), tt: 1, la: None }])
        }
        // a{n} chains
        1 => {
            // short chains, and now and then long ones: the refinement needs one round per link
            // (a cap on the number of rounds shows at 65, 130, 260 links)
            let n = if rng.chance(1, 6) { *rng.pick(&[63usize, 64, 65, 66, 70, 100, 129, 130, 260]) } else { rng.range(2, 12) } as u32;
            ScannerCfg::single(vec![
                RefPattern { re: Re::Rep(Box::new(lit('a')), n, RepMax::Exactly), tt: 0, la: None },
                RefPattern { re: Re::Rep(Box::new(ab()), 1, RepMax::Bounded(n)), tt: 1, la: None },
            ])
        }
        // keyword sets sharing suffixes
        2 => {
            let suffix = ["ing", "ed", "s"][rng.below(3)];
            let stems = ["a", "b", "ab", "ba", "c", "ca"];
            let n = rng.range(2, 5);
            let same_type = rng.chance(1, 2);
            let pats = (0..n)
                .map(|i| RefPattern {
                    re: word(&format!("{}{}", stems[i], suffix)),
                    tt: if same_type { 7 } else { i },
                    la: None,
                })
                .collect();
            ScannerCfg::single(pats)
        }
        // equal patterns with different token types: must not merge
        3 => {
            let r = gen_re(rng, &GenParams::ascii_ab());
            ScannerCfg::single(vec![
                RefPattern { re: r.clone(), tt: 1, la: None },
                RefPattern { re: Re::Group(GroupKind::Capture, Box::new(r)), tt: 2, la: None },
            ])
        }
        // alternation of identical branches (states that must merge)
        4 => {
            let r = gen_re(rng, &GenParams::ascii_ab());
            ScannerCfg::single(vec![RefPattern { re: Re::Alt(vec![r.clone(), r.clone(), r]), tt: 3, la: None }])
        }
        _ => {
            let n = rng.range(1, 5) as u32;
            ScannerCfg::single(vec![RefPattern {
                re: Re::Cat(vec![Re::Rep(Box::new(Re::Opt(Box::new(lit('a')))), n, RepMax::Exactly), Re::Rep(Box::new(lit('a')), n, RepMax::Exactly)]),
                tt: 0,
                la: Some((true, Re::Plus(Box::new(ab())))),
            }])
        }
    }
}

fn gen_program(rng: &mut Rng, st: &mut Stats) -> Option<ScannerCfg> {
    let p = GenParams::varied(rng);
    let cfg = match rng.below(11) {
        0..=2 => {
            st.count("synthetic_minimizer_shape");
            synthetic_minimizer_shapes(rng)
        }
        3 | 4 => gen_multi_mode(rng, &p, 30, 3),
        _ => {
            let mp = ModeParams { min_pats: 1, max_pats: 6, la_percent: 20, by_index: rng.chance(1, 2) };
            gen_single_mode(rng, &p, &mp)
        }
    };
    let mut cfg = cfg;
    for m in cfg.modes.iter_mut() {
        for p in m.pats.iter_mut() {
            let mut counter = 0;
            uniquify_group_names(&mut p.re, &mut counter);
        }
    }
    if !cfg.all_res().iter().all(|r| print_parse_roundtrip_ok(r)) {
        st.count("harness_guard_print_parse_mismatch");
        return None;
    }
    Some(cfg)
}

fn corpus_files() -> Vec<std::path::PathBuf> {
    let mut v = vec![std::path::PathBuf::from("/repo/scnr/benches/veryl_modes.json")];
    if let Ok(rd) = std::fs::read_dir("/repo/scnr/tests/data") {
        let mut fs: Vec<_> = rd
            .filter_map(|e| e.ok())
            .map(|e| e.path())
            .filter(|p| p.extension().map_or(false, |e| e == "json") && !p.to_string_lossy().contains("_tokens"))
            .collect();
        fs.sort();
        v.extend(fs);
    }
    v
}

pub fn run_lang(which: Which, tier: Tier) -> i32 {
    let (prop, level) = match which {
        Which::C02 => ("C02", "translation_validation"),
        Which::C03 => ("C03", "translation_validation"),
    };
    let ctx = Ctx::new(prop, tier, level);
    if std::env::var("VERIF_HOOKS").map_or(false, |v| v == "0") {
        println!("INCONCLUSIVE property={} reason=the tree under test does not compile with the hook feature", prop);
        return 2;
    }
    let mut res = RunResult::new();
    // stream 1: generated programs
    let n = match which {
        Which::C02 => ctx.scale(4_000, 200_000),
        Which::C03 => ctx.scale(6_000, 300_000),
    };
    res.merge(run_cases(&ctx, 1, n, |rng, _i, st| {
        let Some(cfg) = gen_program(rng, st) else { return CaseOutcome::Skipped };
        st.sample(json!({"patterns": cfg.describe()}));
        st.nontrivial(hash_of(&cfg));
        match lang_check_cfg(&cfg, which, st) {
            Ok(()) => CaseOutcome::Ok,
            Err(mut v) => {
                // minimize the program
                let mut scratch = Stats::default();
                let mut still_fails = |c2: &ScannerCfg, _i: &str| lang_check_cfg(c2, which, &mut scratch).is_err();
                let (mc, _, calls) = crate::shrink::shrink_cfg_input(&cfg, "", &mut still_fails);
                let what = lang_check_cfg(&mc, which, &mut scratch).err().map(|x| x.what).unwrap_or_default();
                v.case["minimized"] = json!({"patterns": mc.describe(), "what": what, "cfg": mc, "oracle_calls": calls});
                CaseOutcome::Violated(v)
            }
        }
    }));
    // stream 5: many small finite languages and shared-type/periodic-word modes (cheap, and the
    // place where the refinement is asked the subtle questions)
    let nfin = ctx.scale(12_000, 600_000);
    res.merge(run_cases(&ctx, 5, nfin, |rng, _i, st| {
        let kind = *rng.pick(&[6usize, 6, 9, 11, 11, 1, 13]);
        let cfg = synthetic_minimizer_shape_of(rng, Some(kind));
        st.count("finite_language_programs");
        st.nontrivial(hash_of(&cfg));
        match lang_check_cfg(&cfg, which, st) {
            Ok(()) => CaseOutcome::Ok,
            Err(v) => CaseOutcome::Violated(v),
        }
    }));
    // stream 2: the systematic {a,b} terms, all singles
    let ops = if tier == Tier::Quick { 3 } else { 4 };
    let leaves = vec![Re::Lit('a', LitStyle::Verbatim), Re::Lit('b', LitStyle::Verbatim)];
    let terms = enumerate_terms(&leaves, ops);
    let nterms = terms.len() as u64;
    res.merge(run_cases(&ctx, 2, nterms, |_rng, i, st| {
        let cfg = ScannerCfg::single(vec![RefPattern { re: terms[i as usize].clone(), tt: 0, la: None }]);
        st.count("systematic_terms");
        st.nontrivial(hash_of(&cfg));
        match lang_check_cfg(&cfg, which, st) {
            Ok(()) => CaseOutcome::Ok,
            Err(v) => CaseOutcome::Violated(v),
        }
    }));
    // stream 3: the repository's corpora
    let files = corpus_files();
    let nfiles = files.len() as u64;
    res.merge(run_cases(&ctx, 3, nfiles, |_rng, i, st| {
        let f = &files[i as usize];
        let Ok(text) = std::fs::read_to_string(f) else { return CaseOutcome::Skipped };
        let Ok(v) = serde_json::from_str::<Value>(&text) else { return CaseOutcome::Skipped };
        let Some(cfg) = cfg_from_json(&v) else {
            st.count("corpus_not_convertible");
            return CaseOutcome::Skipped;
        };
        st.count("corpus_programs");
        st.nontrivial(hash_of(&cfg));
        match lang_check_cfg(&cfg, which, st) {
            Ok(()) => CaseOutcome::Ok,
            Err(mut v) => {
                v.case["file"] = json!(f.to_string_lossy());
                CaseOutcome::Violated(v)
            }
        }
    }));
    // stream 4: the valid single-pattern rows of the repository's match_test.rs
    {
        let (rows, _) = crate::corpus::match_test_rows();
        let mut pats: Vec<String> = rows
            .into_iter()
            .filter(|r| r.kind == crate::corpus::RowKind::Valid)
            .map(|r| r.pattern)
            .collect();
        pats.sort();
        pats.dedup();
        let n = pats.len() as u64;
        res.merge(run_cases(&ctx, 4, n, |_rng, i, st| {
            let Ok(re) = parse_to_ir(&pats[i as usize]) else { return CaseOutcome::Skipped };
            let cfg = ScannerCfg::single(vec![RefPattern { re, tt: 0, la: None }]);
            st.count("repository_row_programs");
            st.nontrivial(hash_of(&cfg));
            match lang_check_cfg(&cfg, which, st) {
                Ok(()) => CaseOutcome::Ok,
                Err(v) => CaseOutcome::Violated(v),
            }
        }));
    }
    let programs = res.stats.get("programs_built");
    let report = match which {
        Which::C02 => Report::new(
            "programs = generated pattern sets (single- and multi-mode, lookaheads, all IR constructs), every IR term with <= k operators over {a,b} as a single pattern, and the repository's corpora (veryl_modes.json, tests/data/*.json). Per program: build with the real compiler, dump every compiled automaton through hook H1, observe every registered class predicate on all 1,112,064 scalar values, partition the alphabet into atoms by the joint membership in the compiled classes and the IR's classes, and explore the product of the compiled automaton with the Brzozowski-derivative automaton of the patterns over all atoms: at every reached pair the accepted token types must equal the token types of the nullable derivatives (exact for that program: all strings). Start state not accepting, every class id registered, every lookahead automaton against its lookahead pattern. A program is counted once by the hash of its configuration.",
        )
        .floor("programs_built", 2_000)
        .floor("automata_conclusive", 2_000)
        .floor("program_with_overlapping_classes", 100)
        .floor("program_with_lookahead", 100)
        .floor("program_with_ge50_classes", 1)
        .floor("systematic_terms", 2_000)
        .extra("programs", json!(programs))
        .extra("disagreements_checked", json!(0))
        .assume("the reference side (IR class evaluator, derivative automaton) is the trusted base; regex-syntax converts corpus patterns to IR; named classes are calibrated on the scanner (C08)"),
        Which::C03 => Report::new(
            "every (automaton before, automaton after) pair recorded by hook H2 during the builds of the C02 workload (every mode and every lookahead automaton of every generated, systematic and corpus program) plus synthetic shapes that stress the refinement ((a|b)*abb-style, a{n} chains, keyword sets sharing suffixes, equal patterns with different token types, identical alternation branches, random finite languages - subsets of all words of 2-4 letters over 2-3 letters per position, spread over 1-3 patterns, flat or factored by the first letter). Per pair: on-the-fly determinisation of both automata over the class ids as letters, accepted token-type sets compared at every reached pair of state sets, rooted at state 0 of both (sufficient; a symbol-level difference is re-checked over characters with the class predicates before it counts), and |after| <= |before|.",
        )
        .floor("minimizer_pairs", 5_000)
        .floor("pairs_where_states_were_removed", 1_000)
        .floor("pairs_with_ge2_accepting_types", 100)
        .floor("pairs_equivalent_at_symbol_level", 5_000)
        .extra("programs", json!(programs))
        .extra("disagreements_checked", json!(res.stats.get("pairs_rechecked_at_atom_level"))),
    };
    // >= 95 % conclusive
    let budget = res.stats.get("automata_budget_exhausted") + res.stats.get("pairs_budget_exhausted");
    let concl = res.stats.get("automata_conclusive") + res.stats.get("pairs_equivalent_at_symbol_level");
    if budget * 20 > concl + budget {
        res.harness_errors.push(format!("more than 5% of the automata exceeded the exploration budget ({} of {})", budget, concl + budget));
    }
    finish(&ctx, res, report)
}
