//! Condensed workloads for the Miri interpreter (UB in the two unsafe sites, aliasing of clones,
//! data races, deadlocks). Usage: vmiri <tok|iso|cache|conc> <seed> <count>
//! Prints one line per case and a final summary; a violation of the functional oracle is reported
//! as `VIOLATION ...`, undefined behaviour is reported by Miri itself.
use vharness::monitor::*;
use vharness::rng::Rng;

fn main() {
    install_panic_hook();
    let a: Vec<String> = std::env::args().collect();
    let mode = a.get(1).map(|s| s.as_str()).unwrap_or("tok");
    let seed: u64 = a.get(2).and_then(|s| s.parse().ok()).unwrap_or(1);
    let count: u64 = a.get(3).and_then(|s| s.parse().ok()).unwrap_or(4);
    let mut st = Stats::default();
    let mut bad = 0;
    for i in 0..count {
        let mut rng = Rng::for_case(seed, 77, i);
        let out = match mode {
            "tok" => {
                // small single-mode configurations through both build paths, full-rule oracle
                use vharness::checks_tok::*;
                use vharness::gen::*;
                let p = GenParams::default();
                let mp = ModeParams { min_pats: 1, max_pats: 3, la_percent: 25, by_index: true };
                let cfg = gen_single_mode(&mut rng, &p, &mp);
                let refs = cfg.all_res();
                let input = gen_input(&mut rng, &refs, &p.letters, 8);
                let path = if i % 2 == 0 { BuildPath::Cached } else { BuildPath::Uncached };
                match run_tok_case("tok_select", TokOracle::FullRule, &cfg, &input, 0, path, &mut st) {
                    Ok(()) => CaseOutcome::Ok,
                    Err(v) => CaseOutcome::Violated(v),
                }
            }
            "iso" => vharness::checks_hist::c12_case(&mut rng, &mut st),
            "cache" => vharness::checks_conc::c13_case(&mut rng, i, &mut st),
            "conc" => {
                let progress = std::sync::atomic::AtomicU64::new(0);
                vharness::checks_conc::c14_round(&mut rng, seed * 1000 + i, &mut st, &progress)
            }
            _ => {
                eprintln!("unknown mode");
                std::process::exit(2);
            }
        };
        match out {
            CaseOutcome::Ok => println!("case {} ok", i),
            CaseOutcome::Skipped => println!("case {} skipped", i),
            CaseOutcome::Violated(v) => {
                bad += 1;
                println!("VIOLATION-DETAIL {}", v.what);
            }
        }
    }
    let mut line = String::new();
    for (k, v) in &st.counters {
        line.push_str(&format!("{}={} ", k, v));
    }
    println!("SUMMARY mode={} seed={} cases={} violations={} {}", mode, seed, count, bad, line);
    std::process::exit(if bad > 0 { 1 } else { 0 });
}
