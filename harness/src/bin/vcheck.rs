use vharness::monitor::{install_panic_hook, Tier};

fn usage() -> ! {
    eprintln!("usage: vcheck <C01..C18> <quick|thorough> | vcheck replay <file> | vcheck selftest");
    std::process::exit(2);
}

fn main() {
    install_panic_hook();
    let args: Vec<String> = std::env::args().collect();
    if args.len() < 2 {
        usage();
    }
    if args[1] == "worker" {
        // worker <PROP> <stream> <from> <to>
        let seed = std::env::var("VERIF_SEED").ok().and_then(|s| s.parse().ok()).unwrap_or(1);
        let stream: u64 = args[3].parse().unwrap();
        let from: u64 = args[4].parse().unwrap();
        let to: u64 = args[5].parse().unwrap();
        let f: vharness::monitor::CaseFn = match (args[2].as_str(), stream) {
            ("C15", 1) => vharness::checks_misc::c15_soup_case,
            ("C15", 5) => vharness::checks_misc::c15_display_twin_case,
            ("C13", 1) | ("C13", 2) => vharness::checks_conc::c13_case,
            ("C14", 1) => vharness::checks_conc::c14_case,
            ("C14", 2) => vharness::checks_conc::c14_churn_case,
            ("C11", 3) => vharness::checks_scale::c11_huge_case,
            _ => usage(),
        };
        std::process::exit(vharness::monitor::worker_main(seed, stream, from, to, f));
    }
    #[cfg(feature = "hooks")]
    if args[1] == "c18worker" {
        std::process::exit(vharness::checks_dot::c18_worker(&args[2]));
    }
    #[cfg(feature = "hooks")]
    if args[1] == "selftest" {
        let n = args.get(2).and_then(|s| s.parse().ok()).unwrap_or(20_000);
        std::process::exit(vharness::selftest::run(n, 1));
    }
    if args[1] == "corpus" {
        let (rows, unparsed) = vharness::corpus::match_test_rows();
        let v = rows.iter().filter(|r| r.kind == vharness::corpus::RowKind::Valid).count();
        let conv = rows.iter().filter(|r| r.kind == vharness::corpus::RowKind::Valid && vharness::ir::parse_to_ir(&r.pattern).is_ok()).count();
        println!("rows={} valid={} convertible={} unparsed={}", rows.len(), v, conv, unparsed);
        for r in rows.iter().take(5) {
            println!("{:?}", r);
        }
        std::process::exit(0);
    }
    if args[1] == "replay" {
        let Some(path) = args.get(2) else { usage() };
        std::process::exit(replay(path));
    }
    let tier = match args.get(2).map(|s| s.as_str()) {
        Some("quick") => Tier::Quick,
        Some("thorough") => Tier::Thorough,
        _ => usage(),
    };
    let code = match args[1].as_str() {
        "C01" => vharness::checks_tok::c01(tier),
        "C04" => vharness::checks_tok::c04(tier),
        "C05" => vharness::checks_tok::c05(tier),
        "C06" => vharness::checks_hist::c06(tier),
        "C07" => vharness::checks_tok::c07(tier),
        "C09" => vharness::checks_hist::c09(tier),
        "C10" => vharness::checks_hist::c10(tier),
        "C11" => vharness::checks_hist::c11(tier),
        "C12" => vharness::checks_hist::c12(tier),
        "C08" => vharness::checks_class::c08(tier),
        "C13" => vharness::checks_conc::c13(tier),
        "C14" => vharness::checks_conc::c14(tier),
        "C15" => vharness::checks_misc::c15(tier),
        "C16" => vharness::checks_misc::c16(tier),
        #[cfg(feature = "hooks")]
        "C02" => vharness::checks_lang::run_lang(vharness::checks_lang::Which::C02, tier),
        #[cfg(feature = "hooks")]
        "C17" => vharness::checks_big::c17(tier),
        #[cfg(feature = "hooks")]
        "C18" => vharness::checks_dot::c18(tier),
        #[cfg(feature = "hooks")]
        "C03" => vharness::checks_lang::run_lang(vharness::checks_lang::Which::C03, tier),
        #[cfg(not(feature = "hooks"))]
        "C02" | "C03" | "C17" | "C18" => {
            println!("INCONCLUSIVE property={} reason=the tree under test does not compile with the hook feature", args[1]);
            2
        }
        _ => usage(),
    };
    std::process::exit(code);
}

fn replay(path: &str) -> i32 {
    let text = match std::fs::read_to_string(path) {
        Ok(t) => t,
        Err(e) => {
            eprintln!("cannot read {}: {}", path, e);
            return 2;
        }
    };
    let doc: serde_json::Value = match serde_json::from_str(&text) {
        Ok(v) => v,
        Err(e) => {
            eprintln!("bad replay file: {}", e);
            return 2;
        }
    };
    let prop = doc["property"].as_str().unwrap_or("?").to_string();
    println!("recorded: {}", doc["what"].as_str().unwrap_or(""));
    let case = &doc["case"];
    let kind = case["kind"].as_str().unwrap_or("");
    let r = match kind {
        "tok" | "tok_gate" | "tok_select" | "wf" => vharness::checks_tok::replay_tok(case),
        #[cfg(feature = "hooks")]
        "lang" => {
            let cfg: Result<vharness::cfg::ScannerCfg, _> = serde_json::from_value(case["cfg"].clone());
            match cfg {
                Err(e) => Err(format!("bad case: {}", e)),
                Ok(cfg) => {
                    let which = if prop == "C03" { vharness::checks_lang::Which::C03 } else { vharness::checks_lang::Which::C02 };
                    let mut st = vharness::monitor::Stats::default();
                    vharness::checks_lang::lang_check_cfg(&cfg, which, &mut st).map_err(|v| v.what)
                }
            }
        }
        _ => {
            // regenerate the case from (seed, stream, index)
            let (Some(seed), Some(stream), Some(index)) = (case["seed"].as_u64(), case["stream"].as_u64(), case["index"].as_u64()) else {
                eprintln!("replay of case kind {:?} is not supported; the case data in the file is complete", kind);
                return 2;
            };
            use vharness::monitor::{CaseOutcome, Stats};
            use vharness::rng::Rng;
            let mut rng = Rng::for_case(seed, stream, index);
            let mut st = Stats::default();
            let out = match (prop.as_str(), stream) {
                ("C01", 7) => vharness::checks_tok::c01_reuse_case(&mut rng, &mut st),
                ("C04", 2) => vharness::checks_tok::c04_reset_case(&mut rng, &mut st),
                ("C05", 4) => vharness::checks_tok::c05_reset_case(&mut rng, &mut st),
                ("C04", 5) => vharness::checks_tok::c04_text_twin_case(&mut rng, &mut st),
                ("C06", 1) => vharness::checks_hist::c06_case(&mut rng, &mut st),
                ("C06", 2) => vharness::checks_hist::c06_general_case(&mut rng, &mut st),
                ("C06", 4) => vharness::checks_hist::c06_huge_modes_case(&mut rng, &mut st),
                ("C07", 3) => vharness::checks_hist::c07_history_case(&mut rng, &mut st),
                ("C09", 1) => vharness::checks_hist::c09_case(&mut rng, &mut st),
                ("C09", 2) => vharness::checks_scale::c09_big_case(&mut rng, &mut st),
                ("C10", 2) => vharness::checks_hist::c10_big_case(&mut rng, &mut st),
                ("C11", 2) => vharness::checks_scale::c11_big_case(&mut rng, &mut st),
                ("C11", 3) => vharness::checks_scale::c11_huge_case(&mut rng, index, &mut st),
                #[cfg(feature = "hooks")]
                ("C01", 6) => vharness::checks_scale::c01_long_case(&mut rng, &mut st),
                #[cfg(feature = "hooks")]
                ("C04", 3) => vharness::checks_scale::long_lookahead_case(&mut rng, &mut st, true),
                #[cfg(feature = "hooks")]
                ("C05", 3) => vharness::checks_scale::long_lookahead_case(&mut rng, &mut st, false),
                ("C10", 1) => vharness::checks_hist::c10_case(&mut rng, &mut st),
                ("C11", 1) => vharness::checks_hist::c11_case(&mut rng, &mut st),
                ("C12", 1) => vharness::checks_hist::c12_case(&mut rng, &mut st),
                ("C12", 2) => vharness::checks_hist::c12_reuse_case(&mut rng, &mut st),
                ("C12", 3) => vharness::checks_scale::c12_work_sweep_case(&mut rng, &mut st),
                ("C13", 1) | ("C13", 2) => vharness::checks_conc::c13_case(&mut rng, index, &mut st),
                ("C14", 1) => {
                    let progress = std::sync::atomic::AtomicU64::new(0);
                    vharness::checks_conc::c14_round(&mut rng, index, &mut st, &progress)
                }
                ("C14", 2) => vharness::checks_conc::c14_churn_case(&mut rng, index, &mut st),
                ("C15", 1) => vharness::checks_misc::c15_soup_case(&mut rng, index, &mut st),
                ("C15", 2) => vharness::checks_misc::c15_planted_case(&mut rng, index, &mut st),
                ("C15", 3) => vharness::checks_misc::c15_supported_case(&mut rng, index, &mut st),
                ("C15", 5) => vharness::checks_misc::c15_display_twin_case(&mut rng, index, &mut st),
                ("C16", 1) => vharness::checks_misc::c16_case(&mut rng, index, &mut st),
                ("C08", 1) => vharness::checks_class::c08_class_case(&mut rng, index, &mut st),
                ("C08", 2) => vharness::checks_class::c08_literal_case(&mut rng, index, &mut st),
                #[cfg(feature = "hooks")]
                ("C18", 1) => vharness::checks_dot::c18_case(&mut rng, index, &mut st),
                _ => {
                    eprintln!("no regenerating replay for {} stream {}; the case data in the file is complete", prop, stream);
                    return 2;
                }
            };
            match out {
                CaseOutcome::Violated(v) => Err(v.what),
                _ => Ok(()),
            }
        }
    };
    match r {
        Ok(()) => {
            println!("replay: the oracle is silent on the current tree");
            0
        }
        Err(e) => {
            println!("replay: {}", e);
            println!("VIOLATION property={} replay={}", prop, path);
            1
        }
    }
}
