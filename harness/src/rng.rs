//! Deterministic PRNG (SplitMix64 seeded xoshiro256**). Every random choice of the harness derives
//! from VERIF_SEED through this generator.

#[derive(Clone, Debug)]
pub struct Rng {
    s: [u64; 4],
}

fn splitmix(x: &mut u64) -> u64 {
    *x = x.wrapping_add(0x9E3779B97F4A7C15);
    let mut z = *x;
    z = (z ^ (z >> 30)).wrapping_mul(0xBF58476D1CE4E5B9);
    z = (z ^ (z >> 27)).wrapping_mul(0x94D049BB133111EB);
    z ^ (z >> 31)
}

impl Rng {
    pub fn new(seed: u64) -> Self {
        let mut x = seed;
        let s = [
            splitmix(&mut x),
            splitmix(&mut x),
            splitmix(&mut x),
            splitmix(&mut x),
        ];
        Rng { s }
    }

    /// A generator for case `index` of worker stream `stream` under `seed`.
    pub fn for_case(seed: u64, stream: u64, index: u64) -> Self {
        let mut x = seed ^ stream.wrapping_mul(0x9E3779B97F4A7C15);
        let a = splitmix(&mut x);
        let mut y = a ^ index.wrapping_mul(0xD1B54A32D192ED03);
        let b = splitmix(&mut y);
        Rng::new(b)
    }

    pub fn next_u64(&mut self) -> u64 {
        let result = self.s[1].wrapping_mul(5).rotate_left(7).wrapping_mul(9);
        let t = self.s[1] << 17;
        self.s[2] ^= self.s[0];
        self.s[3] ^= self.s[1];
        self.s[1] ^= self.s[2];
        self.s[0] ^= self.s[3];
        self.s[2] ^= t;
        self.s[3] = self.s[3].rotate_left(45);
        result
    }

    /// Uniform in 0..n (n > 0).
    pub fn below(&mut self, n: usize) -> usize {
        debug_assert!(n > 0);
        ((self.next_u64() >> 11) % (n as u64)) as usize
    }

    /// Uniform in lo..=hi.
    pub fn range(&mut self, lo: usize, hi: usize) -> usize {
        lo + self.below(hi - lo + 1)
    }

    /// True with probability num/den.
    pub fn chance(&mut self, num: usize, den: usize) -> bool {
        self.below(den) < num
    }

    pub fn pick<'a, T>(&mut self, xs: &'a [T]) -> &'a T {
        &xs[self.below(xs.len())]
    }

    pub fn shuffle<T>(&mut self, xs: &mut [T]) {
        for i in (1..xs.len()).rev() {
            let j = self.below(i + 1);
            xs.swap(i, j);
        }
    }
}
