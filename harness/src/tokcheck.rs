//! Oracles over token streams, stated on the reference semantics of refsem.rs (DESIGN 4.2).
use crate::monitor::Stats;
use crate::refsem::*;
use crate::wf::Tok;

/// C01/C05: the complete rule. Every reported token must be in Best(p), every position with
/// Cand(p) = {} must be skipped, nothing may be left over.
/// `start` is the character index the scan starts at.
pub fn check_full_rule(
    pats: &[RefPattern],
    inp: &RefInput,
    toks: &[Tok],
    start: usize,
    st: &mut Stats,
) -> Result<(), String> {
    let mut la = LaStats::default();
    let mut p = start;
    let mut k = 0usize;
    let n = inp.len();
    let mut result = Ok(());
    while p < n {
        let cands = candidates(pats, inp, p, &mut la);
        if cands.is_empty() {
            st.count("skip");
            p += 1;
            continue;
        }
        let b = best(&cands);
        let Some(t) = toks.get(k) else {
            result = Err(format!(
                "no token reported at offset {} although pattern #{} matches {} bytes there",
                inp.off[p],
                b[0].pat,
                inp.off[b[0].end] - inp.off[p]
            ));
            break;
        };
        // observation counters
        {
            let max_extent = b[0].extent;
            let npat_at_max = {
                let mut v: Vec<usize> = cands
                    .iter()
                    .filter(|c| c.extent == max_extent)
                    .map(|c| c.pat)
                    .collect();
                v.sort();
                v.dedup();
                v.len()
            };
            if npat_at_max >= 2 {
                st.count("tie_break");
            }
            if cands.iter().any(|c| c.pat < b[0].pat && c.extent < max_extent) {
                st.count("later_wins_by_length");
            }
            let mut extents: Vec<usize> = cands.iter().map(|c| c.extent).collect();
            extents.sort();
            extents.dedup();
            if extents.len() >= 2 {
                st.count("multi_extent_position");
            }
        }
        let ok = b.iter().any(|c| {
            t.start == inp.off[p] && t.end == inp.off[c.end] && t.tt == pats[c.pat].tt
        });
        if !ok {
            let exp: Vec<String> = b
                .iter()
                .map(|c| {
                    format!(
                        "(type {}, {}..{})",
                        pats[c.pat].tt, inp.off[p], inp.off[c.end]
                    )
                })
                .collect();
            result = Err(format!(
                "token #{} is (type {}, {}..{}) but the rule gives {}",
                k,
                t.tt,
                t.start,
                t.end,
                exp.join(" or ")
            ));
            break;
        }
        if t.end - t.start > (inp.char_index(t.end).unwrap() - p) {
            st.count("multibyte_token");
        }
        k += 1;
        p = inp.char_index(t.end).unwrap();
    }
    if result.is_ok() && k < toks.len() {
        result = Err(format!(
            "token #{} (type {}, {}..{}) reported where no pattern matches",
            k, toks[k].tt, toks[k].start, toks[k].end
        ));
    }
    st.add("tokens", k as u64);
    add_la_stats(st, &la);
    result
}

pub fn add_la_stats(st: &mut Stats, la: &LaStats) {
    st.add("la_pos_satisfied", la.pos_ok);
    st.add("la_pos_failed", la.pos_fail);
    st.add("la_neg_satisfied", la.neg_ok);
    st.add("la_neg_failed", la.neg_fail);
    st.add("la_at_end_of_input", la.at_end);
}

/// C04: soundness of each reported token and completeness at each skipped position; deliberately
/// not the selection rule (C05).
pub fn check_gate_rule(
    pats: &[RefPattern],
    inp: &RefInput,
    toks: &[Tok],
    start: usize,
    st: &mut Stats,
) -> Result<(), String> {
    let mut la = LaStats::default();
    let n = inp.len();
    let mut cursor = start;
    let mut res = Ok(());
    'outer: for (k, t) in toks.iter().enumerate() {
        let (Some(s), Some(e)) = (inp.char_index(t.start), inp.char_index(t.end)) else {
            res = Err(format!("token #{} not on character boundaries", k));
            break;
        };
        if s < cursor {
            res = Err(format!(
                "token #{} starts at {} before the scan position {}",
                k, t.start, inp.off[cursor]
            ));
            break;
        }
        for q in cursor..s {
            let c = candidates(pats, inp, q, &mut la);
            if let Some(c0) = c.first() {
                res = Err(format!(
                    "offset {} was skipped although pattern #{} (type {}) matches {}..{} there with its lookahead condition satisfied (next reported token starts at {})",
                    inp.off[q], c0.pat, pats[c0.pat].tt, inp.off[q], inp.off[c0.end], t.start
                ));
                break 'outer;
            }
            st.count("skip");
        }
        let c = candidates(pats, inp, s, &mut la);
        if !c.iter().any(|c| c.end == e && pats[c.pat].tt == t.tt) {
            // Explain why.
            let mut why = String::from("no pattern of that type matches this text");
            for (i, p) in pats.iter().enumerate() {
                if p.tt == t.tt && ends(&p.re, &inp.chars, 1u128 << s) & (1u128 << e) != 0 {
                    why = format!(
                        "pattern #{} matches the text but its {} lookahead condition is false at offset {}",
                        i,
                        if p.la.as_ref().map_or(false, |l| l.0) { "positive" } else { "negative" },
                        t.end
                    );
                }
            }
            res = Err(format!(
                "token #{} (type {}, {}..{}) is not justified: {}",
                k, t.tt, t.start, t.end, why
            ));
            break;
        }
        st.count("token_justified");
        cursor = e;
    }
    if res.is_ok() {
        for q in cursor..n {
            let c = candidates(pats, inp, q, &mut la);
            if let Some(c0) = c.first() {
                res = Err(format!(
                    "offset {} was skipped although pattern #{} (type {}) matches {}..{} there with its lookahead condition satisfied (no further token reported)",
                    inp.off[q], c0.pat, pats[c0.pat].tt, inp.off[q], inp.off[c0.end]
                ));
                break;
            }
            st.count("skip");
        }
    }
    add_la_stats(st, &la);
    res
}

/// C05: selection only. At every token start where candidates exist the token must be in Best.
pub fn check_selection_rule(
    pats: &[RefPattern],
    inp: &RefInput,
    toks: &[Tok],
    st: &mut Stats,
) -> Result<(), String> {
    let mut la = LaStats::default();
    for (k, t) in toks.iter().enumerate() {
        let (Some(s), Some(_e)) = (inp.char_index(t.start), inp.char_index(t.end)) else {
            return Err(format!("token #{} not on character boundaries", k));
        };
        let cands = candidates(pats, inp, s, &mut la);
        if cands.is_empty() {
            return Err(format!(
                "token #{} (type {}, {}..{}) does not belong to any candidate",
                k, t.tt, t.start, t.end
            ));
        }
        let b = best(&cands);
        let mut extents: Vec<usize> = cands.iter().map(|c| c.extent).collect();
        extents.sort();
        extents.dedup();
        if extents.len() >= 2 {
            st.count("pos_with_different_extents");
        }
        let max_extent = b[0].extent;
        let mut at_max: Vec<usize> = cands
            .iter()
            .filter(|c| c.extent == max_extent)
            .map(|c| c.pat)
            .collect();
        at_max.sort();
        at_max.dedup();
        if at_max.len() >= 2 {
            st.count("pos_with_equal_extent_different_patterns");
        }
        let ok = b
            .iter()
            .any(|c| t.end == inp.off[c.end] && t.tt == pats[c.pat].tt);
        if !ok {
            let in_cands = cands
                .iter()
                .any(|c| t.end == inp.off[c.end] && t.tt == pats[c.pat].tt);
            let exp: Vec<String> = b
                .iter()
                .map(|c| {
                    format!(
                        "(type {}, {}..{}, extent {})",
                        pats[c.pat].tt, t.start, inp.off[c.end], c.extent
                    )
                })
                .collect();
            return Err(format!(
                "token #{} (type {}, {}..{}) {}; the trailing-context rule selects {}",
                k,
                t.tt,
                t.start,
                t.end,
                if in_cands {
                    "is a candidate but not the best one"
                } else {
                    "mixes span and type of different candidates"
                },
                exp.join(" or ")
            ));
        }
        st.count("token_selected");
    }
    add_la_stats(st, &la);
    Ok(())
}
