//! Deterministic shrinker for violation witnesses (DESIGN 8): drop patterns and modes, replace IR
//! terms by sub-terms, drop lookaheads, shorten the input. A candidate is kept only if the same
//! oracle still reports a violation on the real code. Used on the violation path only.
use crate::cfg::*;
use crate::ir::*;

/// All one-step simplifications of a term (smaller terms first).
pub fn simpler_terms(re: &Re) -> Vec<Re> {
    let mut out = Vec::new();
    match re {
        Re::Cat(xs) | Re::Alt(xs) => {
            for x in xs {
                out.push(x.clone());
            }
            if xs.len() > 2 {
                for i in 0..xs.len() {
                    let mut ys = xs.clone();
                    ys.remove(i);
                    out.push(if matches!(re, Re::Cat(_)) { Re::Cat(ys) } else { Re::Alt(ys) });
                }
            }
            for i in 0..xs.len() {
                for s in simpler_terms(&xs[i]) {
                    let mut ys = xs.clone();
                    ys[i] = s;
                    out.push(if matches!(re, Re::Cat(_)) { Re::Cat(ys) } else { Re::Alt(ys) });
                }
            }
        }
        Re::Star(x) | Re::Plus(x) | Re::Opt(x) | Re::Group(_, x) => {
            out.push((**x).clone());
            for s in simpler_terms(x) {
                out.push(match re {
                    Re::Star(_) => Re::Star(Box::new(s)),
                    Re::Plus(_) => Re::Plus(Box::new(s)),
                    Re::Opt(_) => Re::Opt(Box::new(s)),
                    Re::Group(k, _) => Re::Group(k.clone(), Box::new(s)),
                    _ => unreachable!(),
                });
            }
        }
        Re::Rep(x, m, max) => {
            out.push((**x).clone());
            if *m > 0 {
                out.push(Re::Rep(x.clone(), m - 1, match max {
                    RepMax::Bounded(n) if *n > 0 => RepMax::Bounded(n - 1),
                    o => *o,
                }));
            }
            for s in simpler_terms(x) {
                out.push(Re::Rep(Box::new(s), *m, *max));
            }
        }
        Re::Lit(c, st) if *st != LitStyle::Verbatim => out.push(Re::Lit(*c, LitStyle::Verbatim)),
        Re::Class(_) | Re::Perl(..) | Re::Uni(..) | Re::Dot => out.push(Re::Lit('a', LitStyle::Verbatim)),
        _ => {}
    }
    out
}

/// Shrinks (configuration, input) while `still_fails` holds. Bounded number of oracle calls.
pub fn shrink_cfg_input(
    cfg: &ScannerCfg,
    input: &str,
    still_fails: &mut dyn FnMut(&ScannerCfg, &str) -> bool,
) -> (ScannerCfg, String, usize) {
    let mut cfg = cfg.clone();
    let mut input = input.to_string();
    let mut calls = 0usize;
    let budget = 3000usize;
    let mut progress = true;
    while progress && calls < budget {
        progress = false;
        // drop modes (only trailing ones that no transition refers to are dropped safely)
        while cfg.modes.len() > 1 && calls < budget {
            let last = cfg.modes.len() - 1;
            if cfg.modes.iter().any(|m| m.trans.iter().any(|(_, t)| *t == last)) {
                break;
            }
            let mut c = cfg.clone();
            c.modes.pop();
            calls += 1;
            if still_fails(&c, &input) {
                cfg = c;
                progress = true;
            } else {
                break;
            }
        }
        // drop patterns
        for mi in 0..cfg.modes.len() {
            let mut pi = 0;
            while pi < cfg.modes[mi].pats.len() && cfg.modes[mi].pats.len() > 1 && calls < budget {
                let mut c = cfg.clone();
                c.modes[mi].pats.remove(pi);
                calls += 1;
                if still_fails(&c, &input) {
                    cfg = c;
                    progress = true;
                } else {
                    pi += 1;
                }
            }
        }
        // drop transitions and lookaheads, simplify terms
        for mi in 0..cfg.modes.len() {
            let mut ti = 0;
            while ti < cfg.modes[mi].trans.len() && calls < budget {
                let mut c = cfg.clone();
                c.modes[mi].trans.remove(ti);
                calls += 1;
                if still_fails(&c, &input) {
                    cfg = c;
                    progress = true;
                } else {
                    ti += 1;
                }
            }
            for pi in 0..cfg.modes[mi].pats.len() {
                if cfg.modes[mi].pats[pi].la.is_some() && calls < budget {
                    let mut c = cfg.clone();
                    c.modes[mi].pats[pi].la = None;
                    calls += 1;
                    if still_fails(&c, &input) {
                        cfg = c;
                        progress = true;
                    }
                }
                // the pattern
                let mut again = true;
                while again && calls < budget {
                    again = false;
                    for s in simpler_terms(&cfg.modes[mi].pats[pi].re) {
                        if s.size() >= cfg.modes[mi].pats[pi].re.size() && s != Re::Lit('a', LitStyle::Verbatim) {
                            // only strictly smaller terms (or a leaf replacement)
                            if s.size() > cfg.modes[mi].pats[pi].re.size() {
                                continue;
                            }
                        }
                        if s == cfg.modes[mi].pats[pi].re {
                            continue;
                        }
                        let mut c = cfg.clone();
                        c.modes[mi].pats[pi].re = s;
                        calls += 1;
                        if print_parse_roundtrip_ok(&c.modes[mi].pats[pi].re) && still_fails(&c, &input) {
                            cfg = c;
                            progress = true;
                            again = true;
                            break;
                        }
                        if calls >= budget {
                            break;
                        }
                    }
                }
                // the lookahead pattern
                if let Some((pos, la)) = cfg.modes[mi].pats[pi].la.clone() {
                    for s in simpler_terms(&la) {
                        if s.nullable() || calls >= budget {
                            continue;
                        }
                        let mut c = cfg.clone();
                        c.modes[mi].pats[pi].la = Some((pos, s));
                        calls += 1;
                        if print_parse_roundtrip_ok(&c.modes[mi].pats[pi].la.as_ref().unwrap().1) && still_fails(&c, &input) {
                            cfg = c;
                            progress = true;
                            break;
                        }
                    }
                }
            }
        }
        // shorten the input: halves, then single characters
        let chars: Vec<char> = input.chars().collect();
        if chars.len() > 1 {
            for (a, b) in [(0, chars.len() / 2), (chars.len() / 2, chars.len())] {
                let cand: String = chars[a..b].iter().collect();
                calls += 1;
                if still_fails(&cfg, &cand) {
                    input = cand;
                    progress = true;
                    break;
                }
            }
        }
        let mut i = 0;
        while i < input.chars().count() && calls < budget {
            let cand: String = input.chars().enumerate().filter(|(k, _)| *k != i).map(|(_, c)| c).collect();
            calls += 1;
            if still_fails(&cfg, &cand) {
                input = cand;
                progress = true;
            } else {
                i += 1;
            }
        }
    }
    (cfg, input, calls)
}
