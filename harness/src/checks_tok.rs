//! C01 (longest match / priority / skip), C04 (lookahead gates), C05 (selection among lookahead
//! candidates), C07 (well-formed streams, progress, no panic).
use crate::cfg::*;
use crate::gen::*;
use crate::ir::*;
use crate::monitor::*;
use crate::refsem::*;
use crate::rng::Rng;
use crate::tokcheck::*;
use crate::wf::*;
use serde_json::{json, Value};

#[derive(Clone, Copy, Debug, PartialEq, Eq, serde::Serialize, serde::Deserialize)]
pub enum BuildPath {
    Uncached,
    Cached,
    AddPatterns,
}

pub fn build_with(cfg: &ScannerCfg, path: BuildPath) -> Result<scnr::Scanner, String> {
    let r = sut(|| match path {
        BuildPath::Uncached => cfg.build_uncached(),
        BuildPath::Cached => cfg.build_cached(),
        BuildPath::AddPatterns => {
            let pats: Vec<String> = cfg.modes[0].pats.iter().map(|p| p.re.to_syntax()).collect();
            scnr::ScannerBuilder::new()
                .add_patterns(pats)
                .build()
                .map_err(|e| e.to_string())
        }
    });
    match r {
        Ok(x) => x.map_err(|e| format!("build returned an error: {}", e)),
        Err(p) => Err(format!("panic while building: {}", p)),
    }
}

pub fn case_json(kind: &str, cfg: &ScannerCfg, input: &str, offset: usize, path: BuildPath) -> Value {
    json!({
        "kind": kind,
        "cfg": cfg,
        "patterns": cfg.describe(),
        "input": input,
        "offset": offset,
        "build": path,
    })
}

fn guard_roundtrip(cfg: &ScannerCfg) -> bool {
    cfg.all_res().iter().all(|r| print_parse_roundtrip_ok(r))
}

/// Shape signature used for known findings / grouping: empty first alternative.
fn shape_tags(cfg: &ScannerCfg) -> String {
    let mut tags = String::new();
    if cfg.all_res().iter().any(|r| r.has_empty_first_alternative()) {
        tags.push_str("[empty-first-alternative]");
    }
    if cfg.modes.iter().any(|m| m.has_lookahead()) {
        tags.push_str("[lookahead]");
    }
    tags
}

/// Which oracle a tokenizer case is judged by.
#[derive(Clone, Copy, PartialEq, Eq, Debug)]
pub enum TokOracle {
    FullRule,
    Gate,
    Selection,
    WellFormedOnly,
}

/// Runs one (configuration, input, offset) case against the chosen oracle.
pub fn run_tok_case(
    kind: &str,
    oracle: TokOracle,
    cfg: &ScannerCfg,
    input: &str,
    offset: usize,
    path: BuildPath,
    st: &mut Stats,
) -> Result<(), Violation> {
    let case = || case_json(kind, cfg, input, offset, path);
    let scanner = match build_with(cfg, path) {
        Ok(s) => s,
        Err(e) => {
            return Err(Violation::new(
                format!("{} for a configuration made only of supported constructs", e),
                case(),
            )
            .with_signature(format!("build-failure {} {}", shape_tags(cfg), e)))
        }
    };
    let toks = match scan_all(&scanner, input, offset, 0) {
        Ok(t) => t,
        Err(e) => {
            return Err(Violation::new(e.clone(), case())
                .with_signature(format!("scan-failure {} {}", shape_tags(cfg), e)))
        }
    };
    if oracle == TokOracle::WellFormedOnly {
        return Ok(());
    }
    let inp = RefInput::new(input);
    if inp.len() > MAX_DENOT_CHARS {
        return Ok(());
    }
    let start = inp
        .char_index(offset.min(input.len()))
        .expect("offset on boundary");
    let pats = &cfg.modes[0].pats;
    let r = match oracle {
        TokOracle::FullRule => check_full_rule(pats, &inp, &toks, start, st),
        TokOracle::Gate => check_gate_rule(pats, &inp, &toks, start, st),
        TokOracle::Selection => check_selection_rule(pats, &inp, &toks, st),
        TokOracle::WellFormedOnly => Ok(()),
    };
    r.map_err(|e| {
        let mut c = case();
        c["observed_tokens"] = toks_json(&toks);
        // minimize the witness (violation path only; offsets are kept out of it)
        if offset == 0 && kind != "shrinking" {
            let mut scratch = Stats::default();
            let mut still_fails = |c2: &ScannerCfg, i2: &str| {
                run_tok_case("shrinking", oracle, c2, i2, 0, BuildPath::Uncached, &mut scratch).is_err()
            };
            let (mc, mi, calls) = crate::shrink::shrink_cfg_input(cfg, input, &mut still_fails);
            let what = run_tok_case("shrinking", oracle, &mc, &mi, 0, BuildPath::Uncached, &mut scratch)
                .err()
                .map(|v| v.what)
                .unwrap_or_default();
            c["minimized"] = json!({"patterns": mc.describe(), "input": mi, "what": what, "cfg": mc, "oracle_calls": calls});
        }
        Violation::new(e.clone(), c).with_signature(format!("{} {}", shape_tags(cfg), e))
    })
}

fn nontrivial_hash(cfg: &ScannerCfg, input: &str, offset: usize) -> u64 {
    hash_of(&(cfg, input, offset))
}

// ------------------------------------------------------------------------------------------------
// C01
// ------------------------------------------------------------------------------------------------

/// C01 on a scanner that is used again and again: 2-4 inputs scanned by successive iterators of ONE
/// scanner (some only partly), and on the last iterator 1-3 resets to random offsets; every complete
/// stream is judged by the full rule from where it started. The statement quantifies over "any
/// input": what an earlier iteration or an earlier part of this one left behind must not matter.
pub fn c01_reuse_case(rng: &mut Rng, st: &mut Stats) -> CaseOutcome {
    let p = GenParams::varied(rng);
    let mp = ModeParams { min_pats: 1, max_pats: 5, la_percent: 0, by_index: rng.chance(1, 2) };
    let cfg = gen_single_mode(rng, &p, &mp);
    if !guard_roundtrip(&cfg) {
        return CaseOutcome::Skipped;
    }
    let res_refs = cfg.all_res();
    let inputs: Vec<String> = (0..rng.range(2, 4)).map(|_| gen_input(rng, &res_refs, &p.letters, 30)).collect();
    let path = if rng.chance(1, 3) { BuildPath::Cached } else { BuildPath::Uncached };
    let partial: Vec<usize> = inputs.iter().map(|_| if rng.chance(1, 3) { rng.below(4) } else { usize::MAX }).collect();
    let last = inputs.last().unwrap();
    let lb = crate::hist::boundaries(last);
    let resets: Vec<usize> = (0..rng.range(1, 3)).map(|_| *rng.pick(&lb)).collect();
    let case = || {
        let mut c = case_json("tok_reuse", &cfg, last, 0, path);
        c["inputs"] = json!(inputs);
        c["tokens_taken_per_input"] = json!(partial.iter().map(|n| if *n == usize::MAX { -1 } else { *n as i64 }).collect::<Vec<_>>());
        c["resets_on_last_iterator"] = json!(resets);
        c
    };
    let scanner = match build_with(&cfg, path) {
        Ok(s) => s,
        Err(e) => return CaseOutcome::Violated(Violation::new(e, case())),
    };
    // (input index, start offset, tokens, complete?)
    let r = sut(|| {
        let mut streams: Vec<(usize, usize, Vec<Tok>, bool)> = Vec::new();
        for (k, input) in inputs.iter().enumerate() {
            let mut it = scanner.find_iter(input);
            let mut toks = Vec::new();
            let mut complete = true;
            loop {
                if toks.len() >= partial[k] {
                    complete = false;
                    break;
                }
                match it.next() {
                    Some(m) => toks.push(Tok::from(m)),
                    None => break,
                }
            }
            streams.push((k, 0, toks, complete));
            if k + 1 == inputs.len() {
                for o in &resets {
                    it.set_offset(*o);
                    let mut toks = Vec::new();
                    while let Some(m) = it.next() {
                        toks.push(Tok::from(m));
                        if toks.len() > input.len() + 2 {
                            break;
                        }
                    }
                    streams.push((k, *o, toks, true));
                }
            }
        }
        streams
    });
    let streams = match r {
        Ok(s) => s,
        Err(pm) => return CaseOutcome::Violated(Violation::new(format!("panic while scanning: {}", pm), case())),
    };
    let pats = &cfg.modes[0].pats;
    for (k, o, toks, complete) in &streams {
        let inp = RefInput::new(&inputs[*k]);
        if inp.len() > MAX_DENOT_CHARS {
            continue;
        }
        let start = inp.char_index(*o).unwrap();
        st.count("streams_on_reused_scanner_checked");
        if *o > 0 {
            st.count("streams_after_reset_checked");
        }
        let verdict = match check_full_rule(pats, &inp, toks, start, st) {
            // a stream that was deliberately left early cannot be blamed for what it did not report
            Err(e) if !*complete && e.starts_with("no token reported at offset") => Ok(()),
            other => other,
        };
        if let Err(e) = verdict {
            let mut c = case();
            c["failing_stream"] = json!({"input_index": k, "start_offset": o, "tokens": toks_json(toks)});
            return CaseOutcome::Violated(Violation::new(
                format!("input #{} of a reused scanner, scanned from offset {}: {}", k, o, e),
                c,
            ));
        }
    }
    st.nontrivial(hash_of(&(&cfg, &inputs, &resets)));
    CaseOutcome::Ok
}

pub fn c01(tier: Tier) -> i32 {
    let ctx = Ctx::new("C01", tier, "exploration");
    let mut res = RunResult::new();

    // Stream 1: random lookahead-free modes and inputs, all builder paths.
    let n = ctx.scale(60_000, 3_000_000);
    res.merge(run_cases(&ctx, 1, n, |rng, _i, st| {
        let p = GenParams::varied(rng);
        let by_index = rng.chance(1, 2);
        let mp = ModeParams {
            min_pats: 1,
            max_pats: 6,
            la_percent: 0,
            by_index,
        };
        let cfg = gen_single_mode(rng, &p, &mp);
        if !guard_roundtrip(&cfg) {
            st.count("harness_guard_print_parse_mismatch");
            return CaseOutcome::Skipped;
        }
        let res_refs = cfg.all_res();
        let input = gen_input(rng, &res_refs, &p.letters, 40);
        let path = if by_index && rng.chance(1, 2) {
            BuildPath::AddPatterns
        } else if rng.chance(1, 4) {
            BuildPath::Cached
        } else {
            BuildPath::Uncached
        };
        match path {
            BuildPath::AddPatterns => st.count("built_via_add_patterns"),
            BuildPath::Cached => st.count("built_via_cache"),
            BuildPath::Uncached => st.count("built_uncached"),
        }
        if cfg.modes[0].pats.iter().any(|p| p.re.nullable()) {
            st.count("nullable_pattern");
        }
        if cfg.modes[0].pats.iter().any(|p| p.tt > 65_535) {
            st.count("token_type_above_u16");
        }
        let before = (
            st.get("tie_break"),
            st.get("later_wins_by_length"),
            st.get("skip"),
            st.get("tokens"),
        );
        let r = run_tok_case("tok", TokOracle::FullRule, &cfg, &input, 0, path, st);
        let after = (
            st.get("tie_break"),
            st.get("later_wins_by_length"),
            st.get("skip"),
            st.get("tokens"),
        );
        if after.3 > before.3 && (after.0 > before.0 || after.1 > before.1 || after.2 > before.2) {
            st.nontrivial(nontrivial_hash(&cfg, &input, 0));
        }
        st.sample(json!({"patterns": cfg.describe(), "input": input}));
        match r {
            Ok(()) => CaseOutcome::Ok,
            Err(v) => CaseOutcome::Violated(v),
        }
    }));

    // Stream 2: the systematic space: every IR term with <= k operators over {a,b} as a single
    // pattern against every input over {a,b,z} up to a length bound.
    let (ops, maxlen) = match tier {
        Tier::Quick => (3, 5),
        Tier::Thorough => (4, 6),
    };
    let leaves = vec![
        Re::Lit('a', LitStyle::Verbatim),
        Re::Lit('b', LitStyle::Verbatim),
    ];
    let terms = enumerate_terms(&leaves, ops);
    let inputs = enumerate_strings(&['a', 'b', 'z'], maxlen);
    let ref_inputs: Vec<RefInput> = inputs.iter().map(|s| RefInput::new(s)).collect();
    let nterms = terms.len() as u64;
    let sys = run_cases(&ctx, 2, nterms, |_rng, i, st| {
        let re = &terms[i as usize];
        let cfg = ScannerCfg::single(vec![RefPattern {
            re: re.clone(),
            tt: 0,
            la: None,
        }]);
        let scanner = match build_with(&cfg, BuildPath::Uncached) {
            Ok(s) => s,
            Err(e) => {
                return CaseOutcome::Violated(
                    Violation::new(e.clone(), case_json("tok", &cfg, "", 0, BuildPath::Uncached))
                        .with_signature(format!("build-failure {} {}", shape_tags(&cfg), e)),
                )
            }
        };
        for (input, inp) in inputs.iter().zip(ref_inputs.iter()) {
            st.count("systematic_scans");
            let toks = match scan_all(&scanner, input, 0, 0) {
                Ok(t) => t,
                Err(e) => {
                    return CaseOutcome::Violated(
                        Violation::new(
                            e.clone(),
                            case_json("tok", &cfg, input, 0, BuildPath::Uncached),
                        )
                        .with_signature(format!("scan-failure {} {}", shape_tags(&cfg), e)),
                    )
                }
            };
            if let Err(e) = check_full_rule(&cfg.modes[0].pats, inp, &toks, 0, st) {
                let mut c = case_json("tok", &cfg, input, 0, BuildPath::Uncached);
                c["observed_tokens"] = toks_json(&toks);
                return CaseOutcome::Violated(
                    Violation::new(e.clone(), c)
                        .with_signature(format!("{} {}", shape_tags(&cfg), e)),
                );
            }
            if !toks.is_empty() {
                st.nontrivial(hash_of(&(re, input)));
            }
        }
        CaseOutcome::Ok
    });
    let sys_terms = sys.stats.evaluations;
    res.merge(sys);

    // Stream 3: sampled pairs of systematic terms (priority between two patterns), thorough only.
    if tier == Tier::Thorough {
        let small_terms = enumerate_terms(&leaves, 2);
        let short_inputs = enumerate_strings(&['a', 'b', 'z'], 5);
        let short_ref: Vec<RefInput> = short_inputs.iter().map(|s| RefInput::new(s)).collect();
        let npairs = ctx.scale(0, 20_000);
        res.merge(run_cases(&ctx, 3, npairs, |rng, _i, st| {
            let a = rng.pick(&small_terms).clone();
            let b = rng.pick(&small_terms).clone();
            let cfg = ScannerCfg::single(vec![
                RefPattern { re: a, tt: 0, la: None },
                RefPattern { re: b, tt: 1, la: None },
            ]);
            let scanner = match build_with(&cfg, BuildPath::Uncached) {
                Ok(s) => s,
                Err(e) => {
                    return CaseOutcome::Violated(Violation::new(
                        e,
                        case_json("tok", &cfg, "", 0, BuildPath::Uncached),
                    ))
                }
            };
            for (input, inp) in short_inputs.iter().zip(short_ref.iter()) {
                st.count("systematic_pair_scans");
                let toks = match scan_all(&scanner, input, 0, 0) {
                    Ok(t) => t,
                    Err(e) => {
                        return CaseOutcome::Violated(Violation::new(
                            e,
                            case_json("tok", &cfg, input, 0, BuildPath::Uncached),
                        ))
                    }
                };
                if let Err(e) = check_full_rule(&cfg.modes[0].pats, inp, &toks, 0, st) {
                    let mut c = case_json("tok", &cfg, input, 0, BuildPath::Uncached);
                    c["observed_tokens"] = toks_json(&toks);
                    return CaseOutcome::Violated(
                        Violation::new(e.clone(), c)
                            .with_signature(format!("{} {}", shape_tags(&cfg), e)),
                    );
                }
            }
            CaseOutcome::Ok
        }));
    }

    // Stream 5: large modes (40-150 patterns, automata with hundreds of states): keyword sets with
    // shared prefixes and suffixes over a small alphabet plus a few general patterns; the scan loop
    // has to keep many states alive at once.
    let nlarge = ctx.scale(1_500, 60_000);
    res.merge(run_cases(&ctx, 5, nlarge, |rng, _i, st| {
        let letters: Vec<char> = match rng.below(3) {
            0 => vec!['a', 'b', 'c'],
            1 => vec!['a', 'b', 'é', '€'],
            _ => "abcdefghijklmnopqrstuvwxyz0123456789αβγδεζηθικλμ".chars().collect(),
        };
        // one case in ten: more than 256 patterns in the mode (pattern numbers beyond a byte)
        let many = letters.len() > 4 && rng.chance(1, 10);
        let n = if many { rng.range(257, 300) } else { rng.range(40, 150) };
        if many {
            st.count("modes_with_more_than_256_patterns");
        }
        let lit = |c: char| Re::Lit(c, LitStyle::Verbatim);
        let mut words: Vec<String> = Vec::new();
        let common_first = rng.chance(1, 2);
        let mut attempts = 0;
        while words.len() < n && attempts < 5_000 {
            attempts += 1;
            let len = rng.range(1, if letters.len() <= 4 { 6 } else { 4 });
            let mut w = String::new();
            if common_first {
                w.push('x');
            }
            for _ in 0..len {
                w.push(*rng.pick(&letters));
            }
            if !words.contains(&w) {
                words.push(w);
            }
        }
        let mut pats: Vec<RefPattern> = words
            .iter()
            .enumerate()
            .map(|(i, w)| RefPattern {
                re: if w.chars().count() == 1 { lit(w.chars().next().unwrap()) } else { Re::Cat(w.chars().map(lit).collect()) },
                tt: i,
                la: None,
            })
            .collect();
        let p = GenParams::default();
        for _ in 0..rng.below(4) {
            let at = rng.below(pats.len() + 1);
            pats.insert(at, RefPattern { re: gen_re(rng, &p), tt: 0, la: None });
        }
        for (i, p) in pats.iter_mut().enumerate() {
            p.tt = i;
        }
        let cfg = ScannerCfg::single(pats);
        if !guard_roundtrip(&cfg) {
            return CaseOutcome::Skipped;
        }
        // input: keywords, prefixes of keywords and noise
        let mut input = String::new();
        while input.chars().count() < 30 {
            match rng.below(5) {
                0 => input.push(*rng.pick(&letters)),
                1 => input.push(*rng.pick(&['x', '-', ' '])),
                _ => {
                    let w = &words[rng.below(words.len())];
                    let k = if rng.chance(1, 4) { rng.range(1, w.chars().count()) } else { w.chars().count() };
                    input.extend(w.chars().take(k));
                }
            }
        }
        st.count("large_mode_scans");
        st.nontrivial(nontrivial_hash(&cfg, &input, 0));
        let path = if rng.chance(1, 3) { BuildPath::AddPatterns } else { BuildPath::Uncached };
        match run_tok_case("tok", TokOracle::FullRule, &cfg, &input, 0, path, st) {
            Ok(()) => CaseOutcome::Ok,
            Err(v) => CaseOutcome::Violated(v),
        }
    }));

    // Stream 4: the valid rows of the repository's match_test.rs (pattern + input), judged by the
    // harness's oracle (not by the expectations written in the file).
    {
        let (rows, _) = crate::corpus::match_test_rows();
        let rows: Vec<_> = rows.into_iter().filter(|r| r.kind == crate::corpus::RowKind::Valid).collect();
        let n = rows.len() as u64;
        res.merge(run_cases(&ctx, 4, n, |_rng, i, st| {
            let row = &rows[i as usize];
            let Ok(re) = parse_to_ir(&row.pattern) else {
                st.count("repository_rows_not_convertible");
                return CaseOutcome::Skipped;
            };
            if row.input.chars().count() > MAX_DENOT_CHARS {
                return CaseOutcome::Skipped;
            }
            let cfg = ScannerCfg::single(vec![RefPattern { re, tt: 0, la: None }]);
            st.count("repository_rows_checked");
            st.nontrivial(hash_of(&(&row.pattern, &row.input)));
            match run_tok_case("tok", TokOracle::FullRule, &cfg, &row.input, 0, BuildPath::Uncached, st) {
                Ok(()) => CaseOutcome::Ok,
                Err(v) => CaseOutcome::Violated(v),
            }
        }));
    }

    // Stream 7: one scanner, several inputs, resets - judged by the full rule.
    let nreuse = ctx.scale(10_000, 600_000);
    res.merge(run_cases(&ctx, 7, nreuse, |rng, _i, st| c01_reuse_case(rng, st)));

    // Stream 6: long tokens (lengths across 2^8, 2^15, 2^16 and 2^17 characters, multi-byte
    // included), judged by the derivative-based reference tokenizer (no input length limit).
    #[cfg(feature = "hooks")]
    {
        let nlong = ctx.scale(64, 2_000);
        res.merge(run_cases(&ctx, 6, nlong, |rng, _i, st| crate::checks_scale::c01_long_case(rng, st)));
    }

    let report = Report::new(
        "stream 7: one scanner used for 2-4 inputs by successive iterators (some left early), then 1-3 resets of the last iterator to random offsets; every stream judged by the full rule from its start offset; stream 6: long tokens - 1-4 patterns from a pool of run-shaped patterns (a+, [bc]+d, string and comment literals, multi-byte runs, (fg)*, (h|hi)+j, counted classes, .+) in random priority order, inputs of 2-7 pieces with lengths around 256, 32 768, 65 536 and 131 072 characters and in between (up to 0.9 MB), every token compared with the derivative-based reference tokenizer (longest match, first listed pattern, skip); stream 5: large modes of 40-150 (one in ten: 257-300) patterns (keyword sets with shared prefixes over 3 to 48 letters plus general patterns; automata with hundreds of states); stream 4: the valid rows of the repository's tests/match_test.rs re-judged by the reference; stream 1: random lookahead-free modes (1-6 patterns as IR: literals in all escape styles, dot, classes, Perl classes, groups, alternation incl. empty branches, * + ? {m} {m,} {m,n}; token types by index or arbitrary u32 values) x inputs of 0-40 chars built from members/near-misses of the pattern languages plus noise, through build_uncached / build / add_patterns; stream 2: every IR term with <= k operators over {a,b} as single pattern x every string over {a,b,z} up to length L (exhaustive sub-space); thorough adds sampled term pairs. Oracle: denotational matcher + longest-match/first-pattern/skip rule. A case is non-trivial if tokens were produced and a tie-break, a later-pattern-wins-by-length or a skip event occurred (stream 1) / a token was produced (stream 2); distinct by hash of (configuration, input).",
    )
    .floor("tie_break", 1000)
    .floor("later_wins_by_length", 1000)
    .floor("skip", 1000)
    .floor("multibyte_token", 1000)
    .floor("nullable_pattern", 200)
    .floor("built_via_add_patterns", 200)
    .floor("systematic_scans", 100_000)
    .floor("repository_rows_checked", 100)
    .floor("large_mode_scans", 1_000)
    .floor("modes_with_more_than_256_patterns", 20)
    .floor("streams_on_reused_scanner_checked", 20_000)
    .floor("streams_after_reset_checked", 5_000)
    .floor("long_token_scans", if cfg!(feature = "hooks") { 50 } else { 0 })
    .floor("scans_with_a_piece_longer_than_65535_chars", if cfg!(feature = "hooks") { 20 } else { 0 })
    .assume("regex-syntax 0.8 is only used as a guard (printed IR must parse back to the same structure, otherwise the case is skipped and counted)")
    .assume("non-ASCII membership of \\d \\s \\w is calibrated on the scanner built from that item alone (C08 covers the items themselves)")
    .extra("systematic_terms", json!(sys_terms))
    .extra("systematic_space", json!({"max_operators": ops, "alphabet": "a b", "inputs_over": "a b z", "max_input_len": maxlen, "inputs": inputs.len(), "exhaustive": true}));
    finish(&ctx, res, report)
}

// ------------------------------------------------------------------------------------------------
// C04 / C05 generators
// ------------------------------------------------------------------------------------------------

fn gen_la_mode(rng: &mut Rng, p: &GenParams, min_pats: usize) -> ScannerCfg {
    let mp = ModeParams {
        min_pats,
        max_pats: 5,
        la_percent: 45,
        by_index: rng.chance(1, 2),
    };
    let mut cfg = gen_single_mode(rng, p, &mp);
    // at least one lookahead
    if !cfg.modes[0].has_lookahead() {
        let k = rng.below(cfg.modes[0].pats.len());
        cfg.modes[0].pats[k].la = Some((rng.chance(1, 2), gen_non_nullable(rng, p)));
    }
    // stated bound: a token type that carries a lookahead belongs to one pattern only
    let pats = &mut cfg.modes[0].pats;
    for i in 0..pats.len() {
        if pats[i].la.is_some() {
            for j in 0..pats.len() {
                if j != i && pats[j].tt == pats[i].tt {
                    let mut t = 2_000;
                    while pats.iter().any(|p| p.tt == t) {
                        t += 1;
                    }
                    pats[j].tt = t;
                }
            }
        }
    }
    cfg
}

/// The directed family of C05: candidate A shorter than B, A's lookahead longer / equal / shorter,
/// failed lookahead before / after a satisfied one.
fn gen_directed_la(rng: &mut Rng) -> (ScannerCfg, String) {
    let lit = |c: char| Re::Lit(c, LitStyle::Verbatim);
    let word = |s: &str| {
        if s.chars().count() == 1 {
            lit(s.chars().next().unwrap())
        } else {
            Re::Cat(s.chars().map(lit).collect())
        }
    };
    let letters = ['a', 'b', 'c', 'é'];
    let mut rs = |n: usize, rng: &mut Rng| -> String {
        (0..n).map(|_| *rng.pick(&letters)).collect()
    };
    // input = x y z w ; A = x (?= la_a) ; B = x y (?= la_b) or plain
    let x = rs(rng.range(1, 2), rng);
    let y = rs(rng.range(1, 2), rng);
    let z = rs(rng.range(1, 3), rng);
    let w = rs(rng.range(0, 2), rng);
    let input = format!("{}{}{}{}", x, y, z, w);
    let yz = format!("{}{}", y, z);
    let la_a_len = rng.range(1, yz.chars().count());
    let la_a: String = yz.chars().take(la_a_len).collect();
    let la_b_len = rng.range(1, z.chars().count());
    let la_b: String = z.chars().take(la_b_len).collect();
    let mut a = RefPattern {
        re: word(&x),
        tt: 10,
        la: Some((true, word(&la_a))),
    };
    let mut b = RefPattern {
        re: word(&format!("{}{}", x, y)),
        tt: 20,
        la: Some((true, word(&la_b))),
    };
    match rng.below(8) {
        0 => b.la = None,
        1 => a.la = None,
        2 => a.la = Some((false, word(&la_a))),
        3 => b.la = Some((false, word(&la_b))),
        4 => a.la = Some((true, word("zz"))), // fails
        5 => b.la = Some((true, word("zz"))), // fails
        6 => {
            // repetition: several lengths of one pattern
            a.re = Re::Plus(Box::new(Re::Class(Class {
                neg: false,
                set: CSet::Union(vec![Item::Range('a', 'c'), Item::Lit('é', LitStyle::Verbatim)]),
            })));
        }
        _ => {}
    }
    let mut pats = vec![a, b];
    if rng.chance(1, 2) {
        pats.push(RefPattern {
            re: Re::Plus(Box::new(Re::Dot)),
            tt: 30,
            la: if rng.chance(1, 2) {
                Some((rng.chance(1, 2), word(&rs(1, rng))))
            } else {
                None
            },
        });
    }
    rng.shuffle(&mut pats);
    (ScannerCfg::single(pats), input)
}

fn la_case(
    kind: &str,
    oracle: TokOracle,
    rng: &mut Rng,
    st: &mut Stats,
    with_offsets: bool,
    min_pats: usize,
) -> CaseOutcome {
    let mut p = GenParams::varied(rng);
    p.max_nodes = 8;
    let (cfg, input) = if rng.chance(1, 4) {
        st.count("directed_family");
        gen_directed_la(rng)
    } else {
        let cfg = gen_la_mode(rng, &p, min_pats);
        let res_refs = cfg.all_res();
        let input = gen_input(rng, &res_refs, &p.letters, if oracle == TokOracle::Selection { 24 } else { 40 });
        (cfg, input)
    };
    if !guard_roundtrip(&cfg) {
        st.count("harness_guard_print_parse_mismatch");
        return CaseOutcome::Skipped;
    }
    let offset = if with_offsets && rng.chance(1, 3) && !input.is_empty() {
        let inp = RefInput::new(&input);
        let k = rng.below(inp.len() + 1);
        if k > 0 {
            st.count("scan_from_offset_gt0");
        }
        inp.off[k]
    } else {
        0
    };
    let path = if rng.chance(1, 4) {
        BuildPath::Cached
    } else {
        BuildPath::Uncached
    };
    let before: Vec<u64> = [
        "la_pos_satisfied",
        "la_pos_failed",
        "la_neg_satisfied",
        "la_neg_failed",
    ]
    .iter()
    .map(|k| st.get(k))
    .collect();
    let r = run_tok_case(kind, oracle, &cfg, &input, offset, path, st);
    let after: Vec<u64> = [
        "la_pos_satisfied",
        "la_pos_failed",
        "la_neg_satisfied",
        "la_neg_failed",
    ]
    .iter()
    .map(|k| st.get(k))
    .collect();
    if before != after {
        st.nontrivial(nontrivial_hash(&cfg, &input, offset));
    }
    st.sample(json!({"patterns": cfg.describe(), "input": input, "offset": offset}));
    match r {
        Ok(()) => CaseOutcome::Ok,
        Err(v) => CaseOutcome::Violated(v),
    }
}

/// C04 on a USED iterator: some tokens are consumed (and peeked), then set_offset moves the
/// iterator to another character boundary and the rest of the stream is judged by the gate rule
/// from there ("all scan start offsets including after set_offset").
pub fn c04_reset_case(rng: &mut Rng, st: &mut Stats) -> CaseOutcome {
    reset_case(rng, st, false)
}

/// The same history (use the iterator, then reset it once or several times) judged by the selection
/// rule of C05: a lookahead result remembered from before a reset must not decide the choice.
pub fn c05_reset_case(rng: &mut Rng, st: &mut Stats) -> CaseOutcome {
    reset_case(rng, st, true)
}

fn reset_case(rng: &mut Rng, st: &mut Stats, select: bool) -> CaseOutcome {
    use scnr::ScannerModeSwitcher;
    let mut p = GenParams::varied(rng);
    p.max_nodes = 8;
    let (cfg, input) = if rng.chance(1, 4) {
        gen_directed_la(rng)
    } else {
        let cfg = gen_la_mode(rng, &p, if select { 2 } else { 1 });
        let res_refs = cfg.all_res();
        let input = gen_input(rng, &res_refs, &p.letters, 30);
        (cfg, input)
    };
    if !guard_roundtrip(&cfg) || input.is_empty() {
        return CaseOutcome::Skipped;
    }
    let inp = RefInput::new(&input);
    let consume = rng.below(6);
    let resets: Vec<usize> = (0..rng.range(1, 3)).map(|_| inp.off[rng.below(inp.len() + 1)]).collect();
    let peek_first = rng.chance(1, 2);
    let case = || {
        let mut c = case_json(if select { "tok_select_reset" } else { "tok_gate_reset" }, &cfg, &input, 0, BuildPath::Uncached);
        c["consume"] = json!(consume);
        c["resets"] = json!(resets);
        c["peek_first"] = json!(peek_first);
        c
    };
    let scanner = match build_with(&cfg, BuildPath::Uncached) {
        Ok(s) => s,
        Err(e) => return CaseOutcome::Violated(Violation::new(e, case())),
    };
    let r = sut(|| {
        let mut it = scanner.find_iter(&input);
        let _ = it.current_mode();
        if peek_first {
            let _ = it.peek_n(3);
        }
        for _ in 0..consume {
            if it.next().is_none() {
                break;
            }
        }
        let mut streams: Vec<(usize, Vec<Tok>)> = Vec::new();
        for (k, o) in resets.iter().enumerate() {
            it.set_offset(*o);
            let mut toks = Vec::new();
            // all but the last reset are followed by a partial scan only
            let limit = if k + 1 == resets.len() { usize::MAX } else { 2 };
            while toks.len() < limit {
                match it.next() {
                    Some(m) => toks.push(Tok::from(m)),
                    None => break,
                }
            }
            streams.push((*o, toks));
        }
        streams
    });
    let streams = match r {
        Ok(s) => s,
        Err(pm) => return CaseOutcome::Violated(Violation::new(format!("panic while scanning: {}", pm), case())),
    };
    let pats = &cfg.modes[0].pats;
    for (k, (o, toks)) in streams.iter().enumerate() {
        st.count("reset_on_used_iterator_checked");
        let start = inp.char_index(*o).unwrap();
        let complete = k + 1 == streams.len();
        // a partial stream is judged up to its last token only: append nothing, cut the input
        let r = if select {
            check_selection_rule(pats, &inp, toks, st)
        } else if complete {
            check_gate_rule(pats, &inp, toks, start, st)
        } else {
            // soundness and completeness up to the end of the last consumed token
            let end = toks.last().map_or(*o, |t| t.end);
            let cut = RefInput::new(&input[..end.max(*o)]);
            // lookaheads may look beyond the cut, so judge on the full input but only the tokens seen
            let _ = cut;
            check_gate_prefix(pats, &inp, toks, start, st)
        };
        if let Err(e) = r {
            let mut c = case();
            c["observed_after_reset_to"] = json!(o);
            c["observed_tokens"] = toks_json(toks);
            return CaseOutcome::Violated(Violation::new(format!("after set_offset({}) on a used iterator: {}", o, e), c));
        }
    }
    st.nontrivial(hash_of(&(&cfg, &input, &resets, consume)));
    CaseOutcome::Ok
}

/// Gate rule for a stream that was not consumed to the end: every reported token must be
/// justified and nothing may be skipped before it; nothing is demanded after the last token.
fn check_gate_prefix(pats: &[RefPattern], inp: &RefInput, toks: &[Tok], start: usize, st: &mut Stats) -> Result<(), String> {
    if toks.is_empty() {
        return Ok(());
    }
    // judge on a virtual input that ends where the last token ends is not possible (lookaheads
    // read beyond it), so run the complete rule and ignore a complaint about the unscanned rest
    match check_gate_rule(pats, inp, toks, start, st) {
        Err(e) if e.contains("(no further token reported)") => Ok(()),
        other => other,
    }
}

/// A lookahead is a separate object, not part of the pattern text. Before the configuration with
/// pattern P and Lookahead(+/-, L) is built, configurations are built through the cache in which that
/// pattern is the PLAIN text one could print it as (P?=L, P?!L, P/L, PL, "P L") - where that text is
/// a valid pattern by itself. Then the real configuration is built through the cache and judged by
/// the gate rule: whatever was built before, the lookahead must gate.
pub fn c04_text_twin_case(rng: &mut Rng, st: &mut Stats) -> CaseOutcome {
    let mut p = GenParams::varied(rng);
    p.max_nodes = 6;
    let cfg = gen_la_mode(rng, &p, 1);
    if !guard_roundtrip(&cfg) {
        return CaseOutcome::Skipped;
    }
    let Some(k) = (0..cfg.modes[0].pats.len()).find(|k| cfg.modes[0].pats[*k].la.is_some()) else { return CaseOutcome::Skipped };
    let res_refs = cfg.all_res();
    let input = gen_input(rng, &res_refs, &p.letters, 30);
    let pat = &cfg.modes[0].pats[k];
    let (pos, la) = pat.la.clone().unwrap();
    let ptxt = pat.re.to_syntax();
    let ltxt = la.to_syntax();
    let renderings = [
        format!("{}{}{}", ptxt, if pos { "?=" } else { "?!" }, ltxt),
        format!("{}/{}", ptxt, ltxt),
        format!("{}{}", ptxt, ltxt),
        format!("{} {}", ptxt, ltxt),
        format!("{}{}{}", ptxt, if pos { "=" } else { "!" }, ltxt),
    ];
    let mut twins_built = 0;
    for r in &renderings {
        let modes: Vec<scnr::ScannerMode> = vec![scnr::ScannerMode::new(
            &cfg.modes[0].name,
            cfg.modes[0].pats.iter().enumerate().map(|(j, q)| if j == k { scnr::Pattern::new(r.clone(), q.tt) } else { pattern_of(q) }).collect::<Vec<_>>(),
            cfg.modes[0].trans.clone(),
        )];
        match sut(|| scnr::ScannerBuilder::new().add_scanner_modes(&modes).build().map(|_| ())) {
            Err(pm) => {
                return CaseOutcome::Violated(Violation::new(format!("build panicked for the pattern text {:?}: {}", r, pm), case_json("tok_gate_twin", &cfg, &input, 0, BuildPath::Cached)))
            }
            Ok(Ok(())) => twins_built += 1,
            Ok(Err(_)) => {}
        }
    }
    st.add("plain_text_twins_built_before_the_lookahead_configuration", twins_built);
    st.count("lookahead_configurations_built_after_their_plain_text_twins");
    match run_tok_case("tok_gate", TokOracle::Gate, &cfg, &input, 0, BuildPath::Cached, st) {
        Ok(()) => {
            st.nontrivial(nontrivial_hash(&cfg, &input, 0));
            CaseOutcome::Ok
        }
        Err(mut v) => {
            v.what = format!("after configurations with the plain pattern texts {:?} were built: {}", renderings, v.what);
            CaseOutcome::Violated(v)
        }
    }
}

pub fn c04(tier: Tier) -> i32 {
    let ctx = Ctx::new("C04", tier, "exploration");
    let n = ctx.scale(40_000, 3_000_000);
    let mut res = run_cases(&ctx, 1, n, |rng, _i, st| {
        la_case("tok_gate", TokOracle::Gate, rng, st, true, 1)
    });
    let n2 = ctx.scale(15_000, 1_000_000);
    res.merge(run_cases(&ctx, 2, n2, |rng, _i, st| c04_reset_case(rng, st)));
    res.merge(corpus_lookahead_cases(&ctx, TokOracle::Gate));
    // Stream 5: the lookahead configuration built after its plain-text look-alikes.
    let ntwin = ctx.scale(4_000, 300_000);
    res.merge(run_cases(&ctx, 5, ntwin, |rng, _i, st| c04_text_twin_case(rng, st)));
    // Stream 3: lookahead texts of 250 - 140 000 characters (gate oracle on the derivative reference).
    #[cfg(feature = "hooks")]
    {
        let nlong = ctx.scale(64, 2_000);
        res.merge(run_cases(&ctx, 3, nlong, |rng, _i, st| crate::checks_scale::long_lookahead_case(rng, st, true)));
    }
    let report = Report::new(
        "stream 5: before a configuration with pattern P and a separate lookahead L is built through the cache, configurations are built in which that pattern is the plain text P?=L / P?!L / P/L / PL / 'P L' (where valid); then the real configuration is built through the cache and judged by the gate rule; stream 3: lookahead texts of 250 - 140 000 characters (runs after k / m / n tokens, multi-byte included), judged by the derivative-based reference with the gate rule only; stream 1: random single-mode configurations mixing patterns with positive, negative and no lookahead (lookahead patterns never nullable), inputs of 0-40 chars from the pattern languages plus noise, scan start offsets on every kind of character boundary via with_offset on a fresh iterator and (stream 2) via set_offset on a used iterator that has already peeked and consumed tokens; plus the directed family (candidate A shorter than B with A's lookahead longer/equal/shorter, failing lookaheads) and the repository's lookahead fixtures. Oracle: step-wise soundness of every reported token (pattern matches its text and its lookahead condition holds at its end) and completeness at every skipped position. Non-trivial: at least one lookahead evaluation took place; distinct by hash of (configuration, input, offset).",
    )
    .floor("la_pos_satisfied", 2000)
    .floor("plain_text_twins_built_before_the_lookahead_configuration", 3_000)
    .floor("scans_with_a_lookahead_text_longer_than_65535_chars", if cfg!(feature = "hooks") { 20 } else { 0 })
    .floor("la_pos_failed", 2000)
    .floor("la_neg_satisfied", 2000)
    .floor("la_neg_failed", 2000)
    .floor("la_at_end_of_input", 2000)
    .floor("scan_from_offset_gt0", 5000)
    .floor("reset_on_used_iterator_checked", 10_000)
    .floor("token_justified", 20_000)
    .assume("lengths are byte lengths; lookahead patterns are non-nullable; within one mode a token type carries at most one lookahead");
    finish(&ctx, res, report)
}

pub fn c05(tier: Tier) -> i32 {
    let ctx = Ctx::new("C05", tier, "exploration");
    let n = ctx.scale(40_000, 3_000_000);
    let mut res = run_cases(&ctx, 1, n, |rng, _i, st| {
        la_case("tok_select", TokOracle::Selection, rng, st, false, 2)
    });
    // all priority orders of small pattern multisets
    let nperm = ctx.scale(3_000, 100_000);
    res.merge(run_cases(&ctx, 2, nperm, |rng, _i, st| {
        let mut p = GenParams::varied(rng);
        p.max_nodes = 6;
        let cfg0 = gen_la_mode(rng, &p, 2);
        if !guard_roundtrip(&cfg0) {
            return CaseOutcome::Skipped;
        }
        let res_refs = cfg0.all_res();
        let input = gen_input(rng, &res_refs, &p.letters, 16);
        let mut pats = cfg0.modes[0].pats.clone();
        // permutations would separate two adjacent patterns of one token type: keep the types distinct
        for i in 0..pats.len() {
            if pats[..i].iter().any(|q| q.tt == pats[i].tt) {
                let mut t = 3_000;
                while pats.iter().any(|q| q.tt == t) {
                    t += 1;
                }
                pats[i].tt = t;
            }
        }
        let k = pats.len().min(4);
        let mut idx: Vec<usize> = (0..k).collect();
        // Heap's algorithm, iterative
        let mut c = vec![0usize; k];
        let mut perms = vec![idx.clone()];
        let mut i = 0;
        while i < k {
            if c[i] < i {
                if i % 2 == 0 {
                    idx.swap(0, i);
                } else {
                    idx.swap(c[i], i);
                }
                perms.push(idx.clone());
                c[i] += 1;
                i = 0;
            } else {
                c[i] = 0;
                i += 1;
            }
        }
        for perm in perms {
            let mut ps: Vec<RefPattern> = perm.iter().map(|&j| pats[j].clone()).collect();
            ps.extend(pats.iter().skip(k).cloned());
            let cfg = ScannerCfg::single(ps);
            st.count("priority_orders_tried");
            if let Err(v) = run_tok_case(
                "tok_select",
                TokOracle::Selection,
                &cfg,
                &input,
                0,
                BuildPath::Uncached,
                st,
            ) {
                return CaseOutcome::Violated(v);
            }
        }
        CaseOutcome::Ok
    }));
    // Stream 4: the selection after resets of a used iterator.
    let nreset = ctx.scale(15_000, 1_000_000);
    res.merge(run_cases(&ctx, 4, nreset, |rng, _i, st| c05_reset_case(rng, st)));
    // Stream 3: lookahead texts of 250 - 140 000 characters: extents across 2^8, 2^16 and 2^17.
    #[cfg(feature = "hooks")]
    {
        let nlong = ctx.scale(64, 2_000);
        res.merge(run_cases(&ctx, 3, nlong, |rng, _i, st| crate::checks_scale::long_lookahead_case(rng, st, false)));
    }
    let report = Report::new(
        "stream 4: an iterator that has peeked and consumed tokens is reset once or several times with set_offset and every token it reports afterwards is judged by the selection rule at its start (a remembered lookahead result must not decide a later choice); stream 3: long lookahead texts - candidates such as k(?=[bc]+d) against k[bc]* and k[bc]*d, m+(?!é+x), n(?=(é|€)+) against n(é|€)* in random priority order on inputs whose runs are 250 - 140 000 characters long (extents across 2^8, 2^16, 2^17 bytes, multi-byte included), every token compared with the derivative-based reference (maximal extent, first listed pattern); stream 1: random single-mode configurations with >= 2 patterns of which >= 1 has a lookahead, inputs of 0-24 chars; all priority orders (permutations of up to 4 patterns) of sampled pattern multisets; the directed family enumerating the length interleavings (A shorter than B with A's lookahead longer/equal/shorter; failed lookahead before/after a satisfied one). Oracle: every reported token must be among the candidates of maximal extent (own byte length + longest positive-lookahead match) of the first listed pattern among those; span and type must belong to one candidate; panics are captured per scan. Non-trivial: at least one lookahead evaluation; distinct by hash of (configuration, input).",
    )
    .floor("pos_with_different_extents", 5000)
    .floor("pos_with_equal_extent_different_patterns", 1000)
    .floor("la_pos_failed", 1000)
    .floor("token_selected", 20_000)
    .floor("priority_orders_tried", 5000)
    .floor("reset_on_used_iterator_checked", 10_000)
    .floor("scans_with_a_lookahead_text_longer_than_65535_chars", if cfg!(feature = "hooks") { 20 } else { 0 })
    .assume("lengths are byte lengths; ties among several lengths of one pattern are left open by the statement and any of them is accepted");
    finish(&ctx, res, report)
}

/// The repository's lookahead fixtures (tests/data/*lookahead*.json with their inputs).
fn corpus_lookahead_cases(ctx: &Ctx, oracle: TokOracle) -> RunResult {
    let mut res = RunResult::new();
    let dir = "/repo/scnr/tests/data";
    let Ok(rd) = std::fs::read_dir(dir) else {
        return res;
    };
    let mut files: Vec<_> = rd
        .filter_map(|e| e.ok())
        .map(|e| e.path())
        .filter(|p| {
            p.extension().map_or(false, |e| e == "json")
                && !p.to_string_lossy().contains("_tokens")
        })
        .collect();
    files.sort();
    for f in files {
        let Ok(text) = std::fs::read_to_string(&f) else { continue };
        let Ok(modes) = serde_json::from_str::<Vec<scnr::ScannerMode>>(&text) else { continue };
        let Ok(v) = serde_json::from_str::<Value>(&text) else { continue };
        let input_path = f.with_extension("input");
        let Ok(input) = std::fs::read_to_string(&input_path) else { continue };
        // Only single-mode fixtures with short inputs are in reach of the denotational oracle.
        if modes.len() != 1 {
            continue;
        }
        let Some(cfg) = cfg_from_json(&v) else {
            res.stats.count("corpus_not_convertible");
            continue;
        };
        // judge windows of the input
        let chars: Vec<char> = input.chars().collect();
        let mut start = 0;
        while start < chars.len() {
            let end = (start + 100).min(chars.len());
            let window: String = chars[start..end].iter().collect();
            res.stats.count("corpus_windows");
            if let Err(v) = run_tok_case(
                "tok_gate",
                oracle,
                &cfg,
                &window,
                0,
                BuildPath::Uncached,
                &mut res.stats,
            ) {
                res.violations.push(v);
                break;
            }
            res.stats.evaluations += 1;
            start = end;
        }
    }
    let _ = ctx;
    res
}

/// Converts the JSON form of a mode list (README layout) into a ScannerCfg via regex-syntax.
pub fn cfg_from_json(v: &Value) -> Option<ScannerCfg> {
    let mut modes = vec![];
    for m in v.as_array()? {
        let name = m.get("name")?.as_str()?.to_string();
        let mut pats = vec![];
        for p in m.get("patterns")?.as_array()? {
            let re = parse_to_ir(p.get("pattern")?.as_str()?).ok()?;
            let tt = p.get("token_type")?.as_u64()? as usize;
            let la = match p.get("lookahead") {
                None | Some(Value::Null) => None,
                Some(l) => Some((
                    l.get("is_positive")?.as_bool()?,
                    parse_to_ir(l.get("pattern")?.as_str()?).ok()?,
                )),
            };
            pats.push(RefPattern { re, tt, la });
        }
        let mut trans = vec![];
        for t in m.get("transitions")?.as_array()? {
            let a = t.as_array()?;
            trans.push((a[0].as_u64()? as usize, a[1].as_u64()? as usize));
        }
        modes.push(ModeCfg { name, pats, trans });
    }
    Some(ScannerCfg { modes })
}

// ------------------------------------------------------------------------------------------------
// C07
// ------------------------------------------------------------------------------------------------

pub fn c07(tier: Tier) -> i32 {
    let ctx = Ctx::new("C07", tier, "exploration");
    let mut res = RunResult::new();
    // Stream 1: hostile configurations, inputs up to 60 chars, full stream invariants.
    let n = ctx.scale(60_000, 3_000_000);
    res.merge(run_cases(&ctx, 1, n, |rng, _i, st| {
        let p = GenParams::varied(rng);
        let with_la = rng.chance(1, 3);
        let mp = ModeParams {
            min_pats: if rng.chance(1, 20) { 0 } else { 1 },
            max_pats: 5,
            la_percent: if with_la { 50 } else { 0 },
            by_index: rng.chance(1, 2),
        };
        let mut cfg = gen_single_mode(rng, &p, &mp);
        // hostile additions: nullable patterns
        if rng.chance(1, 3) {
            let lit = |c: char| Re::Lit(c, LitStyle::Verbatim);
            let extra = match rng.below(6) {
                0 => Re::Star(Box::new(lit('a'))),
                1 => Re::Empty,
                2 => Re::Alt(vec![lit('a'), Re::Empty]),
                3 => Re::Rep(Box::new(lit('b')), 0, RepMax::Exactly),
                4 => Re::Alt(vec![Re::Empty, lit('a')]),
                _ => Re::Opt(Box::new(Re::Star(Box::new(Re::Dot)))),
            };
            let tt = 1000 + cfg.modes[0].pats.len();
            let pos = rng.below(cfg.modes[0].pats.len() + 1);
            cfg.modes[0].pats.insert(pos, RefPattern { re: extra, tt, la: None });
        }
        // hostile lookaheads: nullable or empty lookahead patterns (only the invariants are judged)
        if with_la && rng.chance(1, 4) {
            for p in cfg.modes[0].pats.iter_mut() {
                if let Some((pos, _)) = p.la.clone() {
                    let lit = |c: char| Re::Lit(c, LitStyle::Verbatim);
                    let la = match rng.below(4) {
                        0 => Re::Empty,
                        1 => Re::Star(Box::new(lit('a'))),
                        2 => Re::Opt(Box::new(lit('b'))),
                        _ => Re::Alt(vec![Re::Empty, lit('c')]),
                    };
                    p.la = Some((pos, la));
                    st.count("scan_with_nullable_lookahead_pattern");
                    break;
                }
            }
        }
        if !guard_roundtrip(&cfg) {
            return CaseOutcome::Skipped;
        }
        if cfg.modes[0].pats.is_empty() {
            st.count("zero_pattern_mode");
        }
        if cfg.modes[0].pats.iter().any(|p| p.re.nullable()) {
            st.count("scan_with_nullable_pattern");
        }
        if cfg.modes[0].has_lookahead() {
            st.count("scan_with_lookahead");
        }
        let res_refs = cfg.all_res();
        let input = match rng.below(10) {
            0 => (0..rng.below(30)).map(|_| *rng.pick(&EXTRA_INPUT)).collect::<String>(),
            _ => gen_input(rng, &res_refs, &p.letters, 60),
        };
        if input.chars().any(|c| c.len_utf8() == 4) {
            st.count("input_with_4byte_char");
        }
        let inp = RefInput::new(&input);
        let offset = if rng.chance(1, 4) { inp.off[rng.below(inp.len() + 1)] } else { 0 };
        let path = if rng.chance(1, 4) { BuildPath::Cached } else { BuildPath::Uncached };
        st.count("scans");
        st.count("exhausted_then_polled");
        let r = run_tok_case("wf", TokOracle::WellFormedOnly, &cfg, &input, offset, path, st);
        st.nontrivial(nontrivial_hash(&cfg, &input, offset));
        st.sample(json!({"patterns": cfg.describe(), "input": input, "offset": offset}));
        match r {
            Ok(()) => CaseOutcome::Ok,
            Err(v) => CaseOutcome::Violated(v),
        }
    }));
    // Stream 2: long inputs (progress at scale).
    let nlong = ctx.scale(24, 400);
    res.merge(run_cases(&ctx, 2, nlong, |rng, _i, st| {
        let p = GenParams::default();
        let mp = ModeParams { min_pats: 1, max_pats: 4, la_percent: 20, by_index: true };
        let cfg = gen_single_mode(rng, &p, &mp);
        if !guard_roundtrip(&cfg) {
            return CaseOutcome::Skipped;
        }
        let res_refs = cfg.all_res();
        let len = if rng.chance(1, 6) { 1_000_000 } else { 100_000 };
        let mut input = String::with_capacity(len * 2);
        while input.len() < len {
            input.push_str(&gen_input(rng, &res_refs, &p.letters, 60));
            input.push(*rng.pick(&EXTRA_INPUT));
        }
        st.count("long_input_scans");
        st.add("long_input_bytes", input.len() as u64);
        let r = run_tok_case("wf", TokOracle::WellFormedOnly, &cfg, &input, 0, BuildPath::Uncached, st);
        match r {
            Ok(()) => CaseOutcome::Ok,
            Err(mut v) => {
                // do not store megabytes in the replay file
                v.case["input"] = json!(format!("<{} bytes, regenerate from seed>", input.len()));
                CaseOutcome::Violated(v)
            }
        }
    }));
    // Stream 3: random call histories (invariants only).
    let nhist = ctx.scale(20_000, 1_000_000);
    res.merge(run_cases(&ctx, 3, nhist, |rng, _i, st| {
        crate::checks_hist::c07_history_case(rng, st)
    }));
    let report = Report::new(
        "stream 1: hostile single-mode configurations (nullable patterns a*, empty, (a|), (|a), x{0}; lookaheads of both polarities; zero-pattern modes; all-unmatched inputs; 1-4 byte characters; start offsets) judged by the stream invariants: non-empty spans on character boundaries inside the input, ordered, at most one token per character, None stays None (polled twice after exhaustion), no panic in build or scan; stream 2: 10^5-10^6 byte inputs; stream 3: random call histories (next / peek_n / advance_to / set_offset / set_mode / position) over multi-mode scanners with the same invariants on every returned and peeked match. Distinct by hash of (configuration, input, offset).",
    )
    .floor("scans", 50_000)
    .floor("scan_with_nullable_pattern", 5000)
    .floor("scan_with_lookahead", 5000)
    .floor("scan_with_nullable_lookahead_pattern", 500)
    .floor("exhausted_then_polled", 1000)
    .floor("long_input_scans", 10)
    .floor("history_ops", 100_000);
    finish(&ctx, res, report)
}

// ------------------------------------------------------------------------------------------------
// Replay
// ------------------------------------------------------------------------------------------------

pub fn replay_tok(case: &Value) -> Result<(), String> {
    let cfg: ScannerCfg =
        serde_json::from_value(case["cfg"].clone()).map_err(|e| format!("bad case: {}", e))?;
    let input = case["input"].as_str().unwrap_or("").to_string();
    let offset = case["offset"].as_u64().unwrap_or(0) as usize;
    let path: BuildPath =
        serde_json::from_value(case["build"].clone()).unwrap_or(BuildPath::Uncached);
    let oracle = match case["kind"].as_str().unwrap_or("") {
        "tok" => TokOracle::FullRule,
        "tok_gate" => TokOracle::Gate,
        "tok_select" => TokOracle::Selection,
        _ => TokOracle::WellFormedOnly,
    };
    let mut st = Stats::default();
    run_tok_case("replay", oracle, &cfg, &input, offset, path, &mut st).map_err(|v| v.what)
}
