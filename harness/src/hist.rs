//! Call histories on FindMatches iterators: operations, execution engine, recorded outputs.
use crate::cfg::*;
use crate::gen::*;
use crate::ir::{LitStyle, Re};
use crate::monitor::sut;
use crate::refsem::RefPattern;
use crate::rng::Rng;
use crate::wf::Tok;
use scnr::{FindMatches, PeekResult, PositionProvider, ScannerModeSwitcher};
use serde::{Deserialize, Serialize};

#[derive(Clone, Debug, PartialEq, Eq, Hash, Serialize, Deserialize)]
pub enum Op {
    Next,
    PeekN(usize),
    /// advance_to(end of the k-th match of the most recent peek), resolved at run time
    AdvanceToPeeked(usize),
    /// advance_to(absolute position)
    AdvanceTo(usize),
    SetOffset(usize),
    SetMode(usize),
    Position(usize),
    CurrentMode,
    Offset,
}

#[derive(Clone, Debug, PartialEq, Eq, Hash, Serialize, Deserialize)]
pub enum Peeked {
    Matches(Vec<Tok>),
    ReachedEnd(Vec<Tok>),
    ModeSwitch(Vec<Tok>, usize),
    NotFound,
}

impl Peeked {
    pub fn toks(&self) -> &[Tok] {
        match self {
            Peeked::Matches(v) | Peeked::ReachedEnd(v) | Peeked::ModeSwitch(v, _) => v,
            Peeked::NotFound => &[],
        }
    }
}

impl From<PeekResult> for Peeked {
    fn from(p: PeekResult) -> Self {
        let conv = |v: Vec<scnr::Match>| v.into_iter().map(Tok::from).collect::<Vec<_>>();
        match p {
            PeekResult::Matches(v) => Peeked::Matches(conv(v)),
            PeekResult::MatchesReachedEnd(v) => Peeked::ReachedEnd(conv(v)),
            PeekResult::MatchesReachedModeSwitch((v, m)) => Peeked::ModeSwitch(conv(v), m),
            PeekResult::NotFound => Peeked::NotFound,
        }
    }
}

#[derive(Clone, Debug, PartialEq, Eq, Hash, Serialize, Deserialize)]
pub enum Out {
    Next(Option<Tok>),
    Peek(Peeked),
    /// (argument actually passed, returned value); None if the op was not applicable
    Advance(Option<(usize, usize)>),
    Unit,
    Pos(usize, usize),
    Mode(usize),
    Offset(usize),
}

/// Executes one operation. `last_peek` carries the most recent peek result for AdvanceToPeeked.
pub fn exec_op(it: &mut FindMatches, op: &Op, last_peek: &mut Option<Peeked>) -> Out {
    match op {
        // Iterator::next and the public next_match are the same operation by contract; both are used
        Op::Next => Out::Next(if it.offset() % 2 == 0 { it.next() } else { it.next_match() }.map(Tok::from)),
        Op::PeekN(n) => {
            let p: Peeked = it.peek_n(*n).into();
            *last_peek = Some(p.clone());
            Out::Peek(p)
        }
        Op::AdvanceToPeeked(k) => {
            let target = last_peek
                .as_ref()
                .and_then(|p| p.toks().get(*k).map(|t| t.end));
            match target {
                Some(e) => Out::Advance(Some((e, it.advance_to(e)))),
                None => Out::Advance(None),
            }
        }
        Op::AdvanceTo(p) => Out::Advance(Some((*p, it.advance_to(*p)))),
        Op::SetOffset(o) => {
            // the iterator can be reset through its own method and through the PositionProvider
            // trait; both are the same operation by contract, both are used
            if *o % 2 == 0 {
                it.set_offset(*o);
            } else {
                PositionProvider::set_offset(it, *o);
            }
            *last_peek = None;
            Out::Unit
        }
        Op::SetMode(m) => {
            it.set_mode(*m);
            *last_peek = None;
            Out::Unit
        }
        Op::Position(o) => {
            let p = PositionProvider::position(it, *o);
            Out::Pos(p.line, p.column)
        }
        Op::CurrentMode => Out::Mode(it.current_mode()),
        Op::Offset => Out::Offset(it.offset()),
    }
}

/// Runs a whole history on a fresh iterator of `scanner` over `input`.
/// Err((index, message)) if an operation panicked.
pub fn run_history(
    scanner: &scnr::Scanner,
    input: &str,
    ops: &[Op],
) -> Result<Vec<Out>, (usize, String)> {
    let mut outs = Vec::with_capacity(ops.len());
    let mut failed: Option<(usize, String)> = None;
    let r = sut(|| {
        let mut it = scanner.find_iter(input);
        let mut last_peek = None;
        for op in ops {
            outs.push(exec_op(&mut it, op, &mut last_peek));
        }
    });
    if let Err(p) = r {
        failed = Some((outs.len(), p));
    }
    match failed {
        None => Ok(outs),
        Some(f) => Err(f),
    }
}

/// Character boundary offsets of the input, including 0 and len.
pub fn boundaries(input: &str) -> Vec<usize> {
    let mut v: Vec<usize> = input.char_indices().map(|(i, _)| i).collect();
    v.push(input.len());
    v
}

#[derive(Clone, Debug)]
pub struct HistParams {
    pub max_ops: usize,
    pub n_modes: usize,
    pub allow_set_offset: bool,
    pub allow_beyond: bool,
    pub allow_set_mode: bool,
    pub allow_advance: bool,
    pub allow_peek: bool,
    pub allow_position: bool,
}

pub fn gen_history(rng: &mut Rng, input: &str, hp: &HistParams) -> Vec<Op> {
    let b = boundaries(input);
    let max_ops = if cfg!(miri) { hp.max_ops.min(10) } else { hp.max_ops };
    let n = rng.range(5.min(max_ops), max_ops);
    let mut ops = Vec::with_capacity(n);
    let mut have_peek = false;
    for _ in 0..n {
        let r = rng.below(100);
        let op = if r < 45 {
            Op::Next
        } else if r < 60 && hp.allow_peek {
            have_peek = true;
            Op::PeekN(*rng.pick(&[0usize, 1, 1, 2, 2, 3, 7]))
        } else if r < 68 && hp.allow_advance && have_peek {
            have_peek = false;
            Op::AdvanceToPeeked(rng.below(3))
        } else if r < 80 && hp.allow_set_offset {
            have_peek = false;
            let o = if hp.allow_beyond && rng.chance(1, 40) {
                // "any offset" includes the largest ones
                *rng.pick(&[usize::MAX, usize::MAX - 1, usize::MAX / 2, 1 << 32, isize::MAX as usize])
            } else if hp.allow_beyond && rng.chance(1, 8) {
                input.len() + rng.range(1, 5)
            } else if rng.chance(1, 8) {
                input.len()
            } else if rng.chance(1, 8) {
                0
            } else {
                *rng.pick(&b)
            };
            Op::SetOffset(o)
        } else if r < 86 && hp.allow_set_mode && hp.n_modes > 0 {
            have_peek = false;
            Op::SetMode(rng.below(hp.n_modes))
        } else if r < 92 && hp.allow_position {
            Op::Position(*rng.pick(&b))
        } else if r < 96 {
            Op::CurrentMode
        } else {
            Op::Offset
        };
        ops.push(op);
    }
    ops
}

/// Multi-mode configurations over general random patterns (for the metamorphic history checks).
pub fn gen_multi_mode(rng: &mut Rng, p: &GenParams, la_percent: usize, max_modes: usize) -> ScannerCfg {
    let n_modes = rng.range(1, max_modes);
    // a pool of token types shared between modes
    let pool: Vec<usize> = {
        let by_index = rng.chance(1, 2);
        let mut v = gen_token_types(rng, 6, by_index);
        v.sort();
        v
    };
    let mut modes = Vec::new();
    for mi in 0..n_modes {
        let npats = rng.range(1, 4);
        let mut tts: Vec<usize> = Vec::new();
        while tts.len() < npats {
            let t = *rng.pick(&pool);
            if !tts.contains(&t) {
                tts.push(t);
            }
        }
        let mut pats = Vec::new();
        let fam = if rng.chance(1, 3) { gen_family(rng, p) } else { vec![] };
        for (k, tt) in tts.iter().enumerate() {
            let re = if k < fam.len() { fam[k].clone() } else { gen_re(rng, p) };
            let la = if rng.below(100) < la_percent {
                Some((rng.chance(1, 2), gen_non_nullable(rng, p)))
            } else {
                None
            };
            pats.push(RefPattern { re, tt: *tt, la });
        }
        // transitions: 0-3, sorted by token type, to existing modes (self loops allowed)
        let ntr = rng.below(4).min(pool.len());
        let mut tr_tts: Vec<usize> = Vec::new();
        while tr_tts.len() < ntr {
            // prefer token types this mode can produce
            let t = if rng.chance(3, 4) { *rng.pick(&tts) } else { *rng.pick(&pool) };
            if !tr_tts.contains(&t) {
                tr_tts.push(t);
            } else if tr_tts.len() >= tts.len() {
                break;
            }
        }
        tr_tts.sort();
        let trans = tr_tts.into_iter().map(|t| (t, rng.below(n_modes))).collect();
        modes.push(ModeCfg {
            name: format!("M{}", mi),
            pats,
            trans,
        });
    }
    // now and then two modes of the scanner are identical except for the name, or for one transition
    // target (what a "compile equal modes once" shortcut would have to keep apart), and some mode
    // switches into the twin
    if !cfg!(miri) && rng.chance(1, 10) {
        let k = rng.below(modes.len());
        // sometimes the two modes are not equal but only LOOK equal when their pattern texts are
        // written one after the other: ("ab", "c") against ("a", "bc"), same token types
        let resplit = modes[k].pats.len() >= 2 && modes[k].pats[0].la.is_none() && rng.chance(1, 3);
        if resplit {
            let w = |t: &str| Re::Cat(t.chars().map(|c| Re::Lit(c, LitStyle::Verbatim)).collect());
            modes[k].pats[0].re = w("ab");
            modes[k].pats[1].re = Re::Lit('c', LitStyle::Verbatim);
        }
        let mut twin = modes[k].clone();
        if resplit {
            twin.pats[0].re = Re::Lit('a', LitStyle::Verbatim);
            twin.pats[1].re = Re::Cat(vec![Re::Lit('b', LitStyle::Verbatim), Re::Lit('c', LitStyle::Verbatim)]);
        }
        twin.name = format!("{}_twin", twin.name);
        let twin_index = modes.len();
        if rng.chance(1, 2) {
            if let Some(t) = twin.trans.first_mut() {
                t.1 = twin_index;
            }
        }
        modes.push(twin);
        let from = rng.below(modes.len());
        if let Some(tt) = modes[from].pats.first().map(|q| q.tt) {
            if let Some(t) = modes[from].trans.iter_mut().find(|(x, _)| *x == tt) {
                t.1 = twin_index;
            } else {
                modes[from].trans.push((tt, twin_index));
                modes[from].trans.sort();
            }
        }
    }
    // mode names need not be distinct: now and then one name is used twice, or by all modes
    if !cfg!(miri) && modes.len() >= 2 && rng.chance(1, 12) {
        if rng.chance(1, 2) {
            let n0 = modes[0].name.clone();
            for m in modes.iter_mut() {
                m.name = n0.clone();
            }
        } else {
            let a = rng.below(modes.len());
            let b = (a + 1) % modes.len();
            modes[b].name = modes[a].name.clone();
        }
    }
    ScannerCfg { modes }
}

/// Transition lookup as the statement defines it (C06): a mapping from token type to mode.
pub fn transition_of(mode: &ModeCfg, tt: usize) -> Option<usize> {
    mode.trans.iter().find(|(t, _)| *t == tt).map(|(_, m)| *m)
}
