//! Reference semantics (DESIGN 4.1, 4.2): class evaluator, denotational matcher, lookahead rule
//! and the candidate sets from which the tokenizer rule is stated.
use crate::ir::*;
use std::collections::HashMap;
use std::sync::{Arc, Mutex, OnceLock};

pub const NSCALARS: usize = 0x110000;

/// A set of Unicode scalar values (bit per code point; surrogates are never set).
#[derive(Clone, PartialEq, Eq)]
pub struct CharSet {
    pub words: Vec<u64>,
}

impl CharSet {
    pub fn empty() -> Self {
        CharSet {
            words: vec![0; NSCALARS / 64],
        }
    }
    pub fn full() -> Self {
        let mut s = CharSet {
            words: vec![!0u64; NSCALARS / 64],
        };
        // Remove the surrogates D800..DFFF.
        for w in (0xD800 / 64)..(0xE000 / 64) {
            s.words[w] = 0;
        }
        s
    }
    #[inline]
    pub fn set(&mut self, c: char) {
        let i = c as usize;
        self.words[i >> 6] |= 1u64 << (i & 63);
    }
    #[inline]
    pub fn has(&self, c: char) -> bool {
        let i = c as usize;
        self.words[i >> 6] & (1u64 << (i & 63)) != 0
    }
    pub fn count(&self) -> usize {
        self.words.iter().map(|w| w.count_ones() as usize).sum()
    }
    pub fn complement(&self) -> CharSet {
        let full = CharSet::full();
        CharSet {
            words: self
                .words
                .iter()
                .zip(full.words.iter())
                .map(|(a, f)| !a & f)
                .collect(),
        }
    }
    pub fn from_fn(f: impl Fn(char) -> bool) -> CharSet {
        let mut s = CharSet::empty();
        for cp in 0..NSCALARS as u32 {
            if let Some(c) = char::from_u32(cp) {
                if f(c) {
                    s.set(c);
                }
            }
        }
        s
    }
    /// First differing scalar value, if any.
    pub fn first_difference(&self, other: &CharSet) -> Option<char> {
        for (i, (a, b)) in self.words.iter().zip(other.words.iter()).enumerate() {
            let d = a ^ b;
            if d != 0 {
                let cp = (i * 64) as u32 + d.trailing_zeros();
                return char::from_u32(cp);
            }
        }
        None
    }
    pub fn difference_count(&self, other: &CharSet) -> usize {
        self.words
            .iter()
            .zip(other.words.iter())
            .map(|(a, b)| (a ^ b).count_ones() as usize)
            .sum()
    }
    pub fn first(&self) -> Option<char> {
        for (i, w) in self.words.iter().enumerate() {
            if *w != 0 {
                return char::from_u32((i * 64) as u32 + w.trailing_zeros());
            }
        }
        None
    }
}

/// The string containing every Unicode scalar value once, in code point order.
pub fn all_scalars() -> &'static str {
    static ALL: OnceLock<String> = OnceLock::new();
    ALL.get_or_init(|| {
        let mut s = String::with_capacity(4_500_000);
        for cp in 0..NSCALARS as u32 {
            if let Some(c) = char::from_u32(cp) {
                s.push(c);
            }
        }
        s
    })
}

/// Observation used by C08 and by the calibration of named items: a scanner is built (uncached)
/// from the single pattern and run over the string of all scalar values; the set of characters
/// that were reported as single-character tokens is returned.
/// Err(..) if the build fails or a reported token is not exactly one character.
pub fn scan_class_set(pattern: &str) -> Result<CharSet, String> {
    let mode = scnr::ScannerMode::new(
        "M",
        vec![scnr::Pattern::new(pattern.to_string(), 7)],
        Vec::<(usize, usize)>::new(),
    );
    let scanner = scnr::ScannerBuilder::new()
        .add_scanner_mode(mode)
        .build_uncached()
        .map_err(|e| format!("build failed: {}", e))?;
    let all = all_scalars();
    let mut set = CharSet::empty();
    let mut last_end = 0usize;
    for m in scanner.find_iter(all) {
        if m.start() < last_end || m.end() > all.len() || !all.is_char_boundary(m.start()) {
            return Err(format!("malformed span {}..{}", m.start(), m.end()));
        }
        let c = all[m.start()..].chars().next().unwrap();
        if m.end() - m.start() != c.len_utf8() {
            return Err(format!(
                "token {}..{} is not a single character",
                m.start(),
                m.end()
            ));
        }
        if m.token_type() != 7 {
            return Err(format!("token type {} reported instead of 7", m.token_type()));
        }
        set.set(c);
        last_end = m.end();
    }
    Ok(set)
}

/// Calibrated set of a named item (DESIGN 4.1): whatever the scanner built from that item alone
/// accepts. Cached per process (and per thread in front of the shared cache, so that the
/// per-character paths do not contend on a lock).
pub fn calibrated(pattern: &str) -> Arc<CharSet> {
    thread_local! {
        static LOCAL: std::cell::RefCell<HashMap<String, Arc<CharSet>>> = std::cell::RefCell::new(HashMap::new());
    }
    if let Some(s) = LOCAL.with(|l| l.borrow().get(pattern).cloned()) {
        return s;
    }
    static CACHE: OnceLock<Mutex<HashMap<String, Arc<CharSet>>>> = OnceLock::new();
    let cache = CACHE.get_or_init(|| Mutex::new(HashMap::new()));
    let found = cache.lock().unwrap().get(pattern).cloned();
    let set = match found {
        Some(s) => s,
        None => {
            let set = match scan_class_set(pattern) {
                Ok(s) => s,
                Err(e) => panic!("HARNESS: calibration of {:?} failed: {}", pattern, e),
            };
            let set = Arc::new(set);
            cache
                .lock()
                .unwrap()
                .insert(pattern.to_string(), set.clone());
            set
        }
    };
    LOCAL.with(|l| l.borrow_mut().insert(pattern.to_string(), set.clone()));
    set
}

pub fn perl_positive_pattern(k: PerlKind) -> &'static str {
    match k {
        PerlKind::Digit => "\\d",
        PerlKind::Space => "\\s",
        PerlKind::Word => "\\w",
    }
}

fn perl_ascii(k: PerlKind, c: char) -> bool {
    match k {
        PerlKind::Digit => c.is_ascii_digit(),
        PerlKind::Space => matches!(c, '\t' | '\n' | '\x0B' | '\x0C' | '\r' | ' '),
        PerlKind::Word => c.is_ascii_alphanumeric() || c == '_',
    }
}

pub fn mem_perl(k: PerlKind, neg: bool, c: char) -> bool {
    // ASCII is fixed by the statement of C08; the rest is calibrated.
    if c.is_ascii() {
        return perl_ascii(k, c) != neg;
    }
    calibrated(perl_positive_pattern(k)).has(c) != neg
}

fn ascii_pattern(k: AsciiKind) -> String {
    format!("[[:{}:]]", k.name())
}

fn uni_pattern(name: &str) -> String {
    if name.chars().count() == 1 {
        format!("\\p{}", name)
    } else {
        format!("\\p{{{}}}", name)
    }
}

pub fn mem_ascii(k: AsciiKind, neg: bool, c: char) -> bool {
    calibrated(&ascii_pattern(k)).has(c) != neg
}

pub fn mem_uni(name: &str, neg: bool, c: char) -> bool {
    calibrated(&uni_pattern(name)).has(c) != neg
}

// Set-level evaluation of classes (same semantics as the per-character functions above, computed
// with word-wise set algebra; the two are cross-checked by the harness self-test).

fn full_set() -> &'static CharSet {
    static FULL: OnceLock<CharSet> = OnceLock::new();
    FULL.get_or_init(CharSet::full)
}

impl CharSet {
    pub fn complement_in_place(&mut self) {
        let full = full_set();
        for (w, f) in self.words.iter_mut().zip(full.words.iter()) {
            *w = !*w & f;
        }
    }
    pub fn union_with(&mut self, o: &CharSet) {
        for (w, x) in self.words.iter_mut().zip(o.words.iter()) {
            *w |= x;
        }
    }
    pub fn set_range(&mut self, a: char, b: char) {
        let full = full_set();
        let (a, b) = (a as usize, b as usize);
        if a > b {
            return;
        }
        for i in a..=b {
            let f = full.words[i >> 6] & (1u64 << (i & 63));
            self.words[i >> 6] |= f;
        }
    }
}

pub fn set_of_perl(k: PerlKind, neg: bool) -> CharSet {
    let cal = calibrated(perl_positive_pattern(k));
    let mut s = (*cal).clone();
    // ASCII part fixed by the statement
    s.words[0] = 0;
    s.words[1] = 0;
    for cp in 0..128u32 {
        let c = char::from_u32(cp).unwrap();
        if perl_ascii(k, c) {
            s.set(c);
        }
    }
    if neg {
        s.complement_in_place();
    }
    s
}

pub fn set_of_item(it: &Item) -> CharSet {
    match it {
        Item::Lit(c, _) => {
            let mut s = CharSet::empty();
            s.set(*c);
            s
        }
        Item::DotVerbatim => {
            let mut s = CharSet::empty();
            s.set('\n');
            s.set('\r');
            s.complement_in_place();
            s
        }
        Item::Range(a, b) => {
            let mut s = CharSet::empty();
            s.set_range(*a, *b);
            s
        }
        Item::Perl(k, n) => set_of_perl(*k, *n),
        Item::Ascii(k, n) => {
            let mut s = (*calibrated(&ascii_pattern(*k))).clone();
            if *n {
                s.complement_in_place();
            }
            s
        }
        Item::Uni(name, n) => {
            let mut s = (*calibrated(&uni_pattern(name))).clone();
            if *n {
                s.complement_in_place();
            }
            s
        }
        Item::Nested(c) => set_of_class(c),
    }
}

pub fn set_of_cset(cs: &CSet) -> CharSet {
    match cs {
        CSet::Union(items) => {
            let mut s = CharSet::empty();
            for it in items {
                match it {
                    Item::Lit(c, _) => s.set(*c),
                    Item::Range(a, b) => s.set_range(*a, *b),
                    other => s.union_with(&set_of_item(other)),
                }
            }
            s
        }
        CSet::Bin(l, op, r) => {
            let mut a = set_of_cset(l);
            let b = set_of_cset(r);
            for (w, x) in a.words.iter_mut().zip(b.words.iter()) {
                *w = match op {
                    BinOp::Inter => *w & x,
                    BinOp::Diff => *w & !x,
                    BinOp::SymDiff => *w ^ x,
                };
            }
            a
        }
    }
}

pub fn set_of_class(c: &Class) -> CharSet {
    let mut s = set_of_cset(&c.set);
    if c.neg {
        s.complement_in_place();
    }
    s
}

/// The set of a single-character IR leaf.
pub fn set_of_leaf(re: &Re) -> CharSet {
    match re {
        Re::Lit(c, _) => {
            let mut s = CharSet::empty();
            s.set(*c);
            s
        }
        Re::Dot => set_of_item(&Item::DotVerbatim),
        Re::Class(c) => set_of_class(c),
        Re::Perl(k, n) => set_of_perl(*k, *n),
        Re::Uni(name, n) => set_of_item(&Item::Uni(name.clone(), *n)),
        _ => unreachable!("not a leaf"),
    }
}

#[inline]
pub fn mem_dot(c: char) -> bool {
    c != '\n' && c != '\r'
}

pub fn mem_item(it: &Item, c: char) -> bool {
    match it {
        Item::Lit(l, _) => *l == c,
        Item::DotVerbatim => mem_dot(c),
        Item::Range(a, b) => *a <= c && c <= *b,
        Item::Perl(k, n) => mem_perl(*k, *n, c),
        Item::Ascii(k, n) => mem_ascii(*k, *n, c),
        Item::Uni(name, n) => mem_uni(name, *n, c),
        Item::Nested(cl) => mem_class(cl, c),
    }
}

pub fn mem_cset(s: &CSet, c: char) -> bool {
    match s {
        CSet::Union(items) => items.iter().any(|it| mem_item(it, c)),
        CSet::Bin(l, op, r) => {
            let a = mem_cset(l, c);
            let b = mem_cset(r, c);
            match op {
                BinOp::Inter => a && b,
                BinOp::Diff => a && !b,
                BinOp::SymDiff => a != b,
            }
        }
    }
}

pub fn mem_class(cl: &Class, c: char) -> bool {
    mem_cset(&cl.set, c) != cl.neg
}

/// Membership of a character in a single-character IR leaf.
pub fn mem_leaf(re: &Re, c: char) -> bool {
    match re {
        Re::Lit(l, _) => *l == c,
        Re::Dot => mem_dot(c),
        Re::Class(cl) => mem_class(cl, c),
        Re::Perl(k, n) => mem_perl(*k, *n, c),
        Re::Uni(name, n) => mem_uni(name, *n, c),
        _ => unreachable!("not a leaf"),
    }
}

// ------------------------------------------------------------------------------------------------
// Denotational matcher over position sets (inputs up to 127 characters)
// ------------------------------------------------------------------------------------------------

pub const MAX_DENOT_CHARS: usize = 127;

/// All positions q such that `re` matches chars[p..q] for some p in `starts`.
pub fn ends(re: &Re, chars: &[char], starts: u128) -> u128 {
    if starts == 0 {
        return 0;
    }
    match re {
        Re::Empty => starts,
        Re::Lit(..) | Re::Dot | Re::Class(_) | Re::Perl(..) | Re::Uni(..) => {
            let mut out = 0u128;
            let mut s = starts;
            while s != 0 {
                let p = s.trailing_zeros() as usize;
                s &= s - 1;
                if p < chars.len() && mem_leaf(re, chars[p]) {
                    out |= 1u128 << (p + 1);
                }
            }
            out
        }
        Re::Cat(xs) => {
            let mut cur = starts;
            for x in xs {
                cur = ends(x, chars, cur);
                if cur == 0 {
                    break;
                }
            }
            cur
        }
        Re::Alt(xs) => {
            if xs.is_empty() {
                return starts;
            }
            let mut out = 0;
            for x in xs {
                out |= ends(x, chars, starts);
            }
            out
        }
        Re::Star(x) => star(x, chars, starts),
        Re::Plus(x) => {
            let once = ends(x, chars, starts);
            star(x, chars, once)
        }
        Re::Opt(x) => starts | ends(x, chars, starts),
        Re::Rep(x, m, max) => {
            let mut cur = starts;
            for _ in 0..*m {
                cur = ends(x, chars, cur);
                if cur == 0 {
                    return 0;
                }
            }
            match max {
                RepMax::Exactly => cur,
                RepMax::AtLeast => star(x, chars, cur),
                RepMax::Bounded(n) => {
                    let mut out = cur;
                    for _ in *m..*n {
                        cur = ends(x, chars, cur);
                        if cur == 0 {
                            break;
                        }
                        out |= cur;
                    }
                    out
                }
            }
        }
        Re::Group(_, x) => ends(x, chars, starts),
        Re::Raw(_) => panic!("HARNESS: raw syntax fragment reached the reference semantics"),
    }
}

fn star(x: &Re, chars: &[char], starts: u128) -> u128 {
    let mut all = starts;
    let mut frontier = starts;
    while frontier != 0 {
        let next = ends(x, chars, frontier) & !all;
        all |= next;
        frontier = next;
    }
    all
}

/// True if `re` matches the whole of `chars`.
pub fn matches_full(re: &Re, chars: &[char]) -> bool {
    assert!(chars.len() <= MAX_DENOT_CHARS);
    ends(re, chars, 1) & (1u128 << chars.len()) != 0
}

// ------------------------------------------------------------------------------------------------
// Tokenizer rule
// ------------------------------------------------------------------------------------------------

#[derive(Clone, Debug, serde::Serialize, serde::Deserialize, PartialEq, Eq, Hash)]
pub struct RefPattern {
    pub re: Re,
    pub tt: usize,
    /// (is_positive, lookahead pattern)
    pub la: Option<(bool, Re)>,
}

/// An input prepared for the reference: characters and their byte offsets.
pub struct RefInput {
    pub chars: Vec<char>,
    /// byte offset of every character, plus the total length as last entry
    pub off: Vec<usize>,
}

impl RefInput {
    pub fn new(s: &str) -> Self {
        let mut chars = Vec::new();
        let mut off = Vec::new();
        for (i, c) in s.char_indices() {
            chars.push(c);
            off.push(i);
        }
        off.push(s.len());
        RefInput { chars, off }
    }
    pub fn len(&self) -> usize {
        self.chars.len()
    }
    /// Character index of a byte offset, if it is on a character boundary.
    pub fn char_index(&self, byte: usize) -> Option<usize> {
        self.off.binary_search(&byte).ok()
    }
}

/// A candidate (pattern index, end position in characters) with satisfied lookahead.
#[derive(Clone, Copy, Debug, PartialEq, Eq)]
pub struct Cand {
    pub pat: usize,
    pub end: usize,
    /// own length plus the longest positive-lookahead match, in bytes
    pub extent: usize,
}

/// Statistics about lookahead evaluations observed while computing candidates.
#[derive(Default, Clone, Copy, Debug)]
pub struct LaStats {
    pub pos_ok: u64,
    pub pos_fail: u64,
    pub neg_ok: u64,
    pub neg_fail: u64,
    pub at_end: u64,
}

/// Cand(p) of DESIGN 4.2.
pub fn candidates(pats: &[RefPattern], inp: &RefInput, p: usize, st: &mut LaStats) -> Vec<Cand> {
    let mut out = Vec::new();
    let n = inp.len();
    for (i, pat) in pats.iter().enumerate() {
        let e = ends(&pat.re, &inp.chars, 1u128 << p) & !(1u128 << p);
        let mut bits = e;
        while bits != 0 {
            let q = bits.trailing_zeros() as usize;
            bits &= bits - 1;
            let own = inp.off[q] - inp.off[p];
            match &pat.la {
                None => out.push(Cand {
                    pat: i,
                    end: q,
                    extent: own,
                }),
                Some((positive, la)) => {
                    let la_ends = ends(la, &inp.chars, 1u128 << q) & !(1u128 << q);
                    if q == n {
                        st.at_end += 1;
                    }
                    if *positive {
                        if la_ends != 0 {
                            st.pos_ok += 1;
                            let far = 127 - la_ends.leading_zeros() as usize;
                            out.push(Cand {
                                pat: i,
                                end: q,
                                extent: own + (inp.off[far] - inp.off[q]),
                            });
                        } else {
                            st.pos_fail += 1;
                        }
                    } else if la_ends == 0 {
                        st.neg_ok += 1;
                        out.push(Cand {
                            pat: i,
                            end: q,
                            extent: own,
                        });
                    } else {
                        st.neg_fail += 1;
                    }
                }
            }
        }
    }
    out
}

/// Best(p): the candidates of maximal extent that belong to the first listed pattern among those.
pub fn best(cands: &[Cand]) -> Vec<Cand> {
    let Some(max_extent) = cands.iter().map(|c| c.extent).max() else {
        return vec![];
    };
    let first_pat = cands
        .iter()
        .filter(|c| c.extent == max_extent)
        .map(|c| c.pat)
        .min()
        .unwrap();
    cands
        .iter()
        .filter(|c| c.extent == max_extent && c.pat == first_pat)
        .cloned()
        .collect()
}
