//! C18: the DOT export is a faithful picture of the compiled automata; unwritable targets give an
//! error, not a panic.
#![cfg(feature = "hooks")]
use crate::cfg::*;
use crate::dotparse::{self, attr_of, Graph};
use crate::gen::*;
use crate::hist::gen_multi_mode;
use crate::ir::*;
use crate::monitor::*;
use crate::refsem::RefPattern;
use crate::rng::Rng;
use scnr::verif_hooks::AutomatonDump;
use serde_json::json;
use std::path::{Path, PathBuf};

fn scratch_root() -> PathBuf {
    let base = std::env::var("VERIF_SCRATCH").unwrap_or_else(|_| "/verif/work/c18".to_string());
    PathBuf::from(base)
}

fn class_id_of_label(label: &str) -> Option<u32> {
    // "... (C#<id>)"
    let i = label.rfind("(C#")?;
    let rest = &label[i + 3..];
    let j = rest.find(')')?;
    if j + 1 != rest.len() {
        return None;
    }
    rest[..j].parse().ok()
}

/// Compares one rendered automaton (nodes/edges of a graph or cluster) with the dump.
fn compare_automaton(g_nodes: &[(String, Vec<(String, String)>)], g_edges: &[(String, String, Vec<(String, String)>)], a: &AutomatonDump, prefix: &str, what: &str) -> Result<(), String> {
    // nodes
    let mut expected_nodes: Vec<String> = (0..a.states.len()).map(|i| format!("{}{}", prefix, i)).collect();
    expected_nodes.sort();
    let mut got_nodes: Vec<String> = g_nodes.iter().map(|n| n.0.clone()).collect();
    got_nodes.sort();
    if expected_nodes != got_nodes {
        return Err(format!("{}: nodes {:?} drawn, states of the compiled automaton are {:?}", what, got_nodes, expected_nodes));
    }
    for (id, attrs) in g_nodes {
        let idx: usize = id[prefix.len()..].parse().map_err(|_| format!("{}: node id {:?}", what, id))?;
        let label = attr_of(attrs, "label").ok_or_else(|| format!("{}: node {:?} has no label", what, id))?;
        let expected = match (idx, a.accepting[idx]) {
            (0, _) => "0".to_string(),
            (_, Some(t)) => format!("{} T{}", idx, t),
            (_, None) => format!("{}", idx),
        };
        if label != expected {
            return Err(format!("{}: node {:?} is labelled {:?}, the compiled automaton says {:?}", what, id, label, expected));
        }
    }
    // edges
    let mut expected_edges: Vec<(String, String, u32)> = Vec::new();
    for (s, trs) in a.states.iter().enumerate() {
        for (cc, t) in trs {
            expected_edges.push((format!("{}{}", prefix, s), format!("{}{}", prefix, t), *cc));
        }
    }
    expected_edges.sort();
    let mut got_edges: Vec<(String, String, u32)> = Vec::new();
    for (f, t, attrs) in g_edges {
        let label = attr_of(attrs, "label").ok_or_else(|| format!("{}: edge {}->{} has no label", what, f, t))?;
        let cc = class_id_of_label(label).ok_or_else(|| format!("{}: edge {}->{} label {:?} does not end in (C#<class id>)", what, f, t, label))?;
        got_edges.push((f.clone(), t.clone(), cc));
    }
    got_edges.sort();
    if expected_edges != got_edges {
        let missing: Vec<_> = expected_edges.iter().filter(|e| !got_edges.contains(e)).take(3).collect();
        let extra: Vec<_> = got_edges.iter().filter(|e| !expected_edges.contains(e)).take(3).collect();
        return Err(format!(
            "{}: {} edges drawn, {} transitions compiled; not drawn: {:?}; drawn but not compiled: {:?}",
            what,
            got_edges.len(),
            expected_edges.len(),
            missing,
            extra
        ));
    }
    Ok(())
}

pub fn compare_graph(g: &Graph, a: &AutomatonDump, what: &str) -> Result<(), String> {
    compare_automaton(&g.nodes, &g.edges, a, "", what)?;
    if g.subgraphs.len() != a.lookaheads.len() {
        return Err(format!("{}: {} clusters drawn, {} lookaheads compiled", what, g.subgraphs.len(), a.lookaheads.len()));
    }
    let mut seen = Vec::new();
    for (name, sub) in &g.subgraphs {
        if !name.starts_with("cluster") {
            return Err(format!("{}: subgraph {:?} is not a cluster", what, name));
        }
        let label = sub.attr("label").ok_or_else(|| format!("{}: cluster without label", what))?;
        let found = a.lookaheads.iter().find(|(tt, pos, _)| label == format!("LA for T{}({})", tt, if *pos { "Pos" } else { "Neg" }));
        let Some((tt, _, la)) = found else {
            return Err(format!(
                "{}: cluster labelled {:?} matches no compiled lookahead {:?}",
                what,
                label,
                a.lookaheads.iter().map(|l| (l.0, l.1)).collect::<Vec<_>>()
            ));
        };
        if seen.contains(tt) {
            return Err(format!("{}: two clusters for token type {}", what, tt));
        }
        seen.push(*tt);
        compare_automaton(&sub.nodes, &sub.edges, la, &format!("{}_", tt), &format!("{} / cluster {:?}", what, label))?;
    }
    Ok(())
}

fn gen_mode_name(rng: &mut Rng, hostile: bool, used: &[String]) -> String {
    loop {
        let base: String = if hostile {
            let pieces = ["we \"ird", "back\\slash", "sp ace", "ü", "名", "q\"", "a'b", "new\nline", "tab\t", "{}", "semi;", "=x", "bs\\\"q", "\\", "end\\", "\\\\\"", "<b>", "a|b", "\\n", "\\l", "\\N"];
            // the number in front now and then, so that the name ends in the special character
            if rng.chance(1, 3) {
                format!("{}{}", rng.below(100), pieces[rng.below(pieces.len())])
            } else {
                format!("{}{}", pieces[rng.below(pieces.len())], rng.below(100))
            }
        } else {
            // identifier-like, now and then with a dot or a dash (file names are derived from it)
            let letters = ['A', 'B', 'x', 'y', '_', '0', '7', 'Q', '.', '-'];
            let n = rng.range(1, 8);
            let mut s = String::from("M");
            for _ in 0..n {
                s.push(*rng.pick(&letters));
            }
            s
        };
        if !used.contains(&base) {
            return base;
        }
    }
}

fn directed_patterns(rng: &mut Rng) -> Vec<RefPattern> {
    let pool = ["\"[^\"]*\"", "\\\\", "[\\n]", "é+", "[\\[\\]]", "\\x22", "[\"\\\\]", "\\t", "a|b", "[a-c&&[^b]]", "\\u{2028}", "'"];
    // verbatim texts (the label shows the class as written): a backslash directly in front of a
    // quote, escaped punctuation, escapes that end in a backslash
    let raw_pool = ["\\\"", "\\\"[^\\\"]*\\\"", "\\\\\\\"", "[\\\"\\\\]", "x\\\"y", "\\'", "\\-\\\"", "[^\\\"]", "\\\\\""];
    let n = rng.range(1, 4);
    (0..n)
        .map(|i| RefPattern {
            re: if rng.chance(1, 3) {
                if rng.chance(1, 2) {
                    Re::Raw(raw_pool[rng.below(raw_pool.len())].to_string())
                } else {
                    // 1-3 atoms whose source text contains what a DOT string treats specially, in a row
                    // or inside one bracket (valid by construction)
                    let atoms = ["\\\"", "\\\\", "\"", "\\n", "\\t", "\\{", "\\}", "<", ">", "\\|", "\\[", "\\]", "'", ";", "\\&", "%", "#", "\\x5c", "\\u{22}", "\\-", "\\.", "\\x22", "l", "N", "G"];
                    let k = rng.range(1, 3);
                    let body: String = (0..k).map(|_| atoms[rng.below(atoms.len())]).collect();
                    Re::Raw(if rng.chance(1, 2) { format!("[{}]", body) } else { body })
                }
            } else {
                parse_to_ir(pool[rng.below(pool.len())]).unwrap()
            },
            tt: i * 3 + 1,
            la: if rng.chance(1, 3) { Some((rng.chance(1, 2), parse_to_ir(pool[rng.below(pool.len())]).unwrap())) } else { None },
        })
        .collect()
}

pub fn c18_case(rng: &mut Rng, i: u64, st: &mut Stats) -> CaseOutcome {
    let p = GenParams::varied(rng);
    let hostile_names = rng.chance(1, 4);
    let mut cfg = gen_multi_mode(rng, &p, 35, 4);
    if rng.chance(1, 3) {
        cfg.modes[0].pats = directed_patterns(rng);
        // keep transitions consistent (sorted, any token types are fine)
    }
    // a token type that carries a lookahead may be shared with the neighbouring pattern (the picture
    // must still show one cluster per compiled lookahead)
    if rng.chance(1, 5) {
        for m in cfg.modes.iter_mut() {
            if let Some(j) = (0..m.pats.len()).find(|j| m.pats[*j].la.is_some()) {
                if j + 1 < m.pats.len() {
                    m.pats[j + 1].tt = m.pats[j].tt;
                    if rng.chance(1, 2) {
                        m.pats[j + 1].la = m.pats[j].la.clone();
                    }
                    st.count("modes_with_a_lookahead_token_type_shared_by_two_patterns");
                }
            }
        }
    }
    if !cfg.all_res().iter().all(|r| matches!(r, Re::Raw(_)) || print_parse_roundtrip_ok(r)) {
        return CaseOutcome::Skipped;
    }
    if cfg.all_res().iter().any(|r| matches!(r, Re::Raw(_))) {
        st.count("scanners_with_backslash_quote_patterns");
    }
    let mut used = Vec::new();
    for m in cfg.modes.iter_mut() {
        m.name = gen_mode_name(rng, hostile_names, &used);
        used.push(m.name.clone());
    }
    let prefix: String = match rng.below(4) {
        0 => format!("lexer-v{}.{}", rng.below(3), rng.below(10)),
        1 => format!("P.{}", rng.below(1000)),
        _ => format!("P{}", rng.below(1000)),
    };
    if prefix.contains('.') || cfg.modes.iter().any(|m| m.name.contains('.')) {
        st.count("exports_with_dots_in_prefix_or_mode_name");
    }
    let case = || json!({"kind": "c18", "cfg": cfg, "patterns": cfg.describe(), "prefix": prefix});
    let scanner = match sut(|| cfg.build_uncached()) {
        Ok(Ok(s)) => s,
        Ok(Err(e)) => return CaseOutcome::Violated(Violation::new(format!("build failed: {}", e), case())),
        Err(pm) => return CaseOutcome::Violated(Violation::new(format!("build panicked: {}", pm), case())),
    };
    let dir = scratch_root().join(format!("t{}_{}_{}", std::process::id(), scnr::verif_hooks::thread_no(), i));
    let _ = std::fs::remove_dir_all(&dir);
    if let Err(e) = std::fs::create_dir_all(&dir) {
        panic!("HARNESS: cannot create scratch dir {:?}: {}", dir, e);
    }
    // The folder may already hold files of an earlier, larger export with the same prefix and
    // mode names: they must be replaced, not patched.
    if rng.chance(1, 3) {
        for m in &cfg.modes {
            let mut old = String::from("digraph {\n  label=\"an earlier export\";\n");
            for k in 0..rng.range(50, 400) {
                old.push_str(&format!("  \"{}\" -> \"{}\" [label=\"x (C#{})\"];\n", k, k + 1, k));
            }
            old.push_str("}\n");
            let _ = std::fs::write(dir.join(format!("{}_{}.dot", prefix, m.name)), old);
        }
        st.count("exports_over_existing_larger_files");
    }
    // fault: the file of ONE mode cannot be written (a directory sits at its path) while the files
    // of the others can: the call must report an error - returning Ok would claim a file per mode
    if cfg.modes.len() >= 2 && rng.chance(1, 12) {
        let blocked = rng.below(cfg.modes.len());
        let bp = dir.join(format!("{}_{}.dot", prefix, cfg.modes[blocked].name));
        let _ = std::fs::remove_file(&bp);
        if std::fs::create_dir_all(&bp).is_ok() {
            st.count("fault_one_mode_file_blocked");
            let r = sut(|| scanner.generate_compiled_automata_as_dot(&prefix, &dir));
            let _ = std::fs::remove_dir_all(&dir);
            return match r {
                Err(pm) => CaseOutcome::Violated(Violation::new(format!("generate_compiled_automata_as_dot panicked when the file of mode #{} could not be written: {}", blocked, pm), case())),
                Ok(Ok(())) => CaseOutcome::Violated(Violation::new(
                    format!(
                        "generate_compiled_automata_as_dot returned Ok although the file of mode #{} ({:?}) of {} modes could not be written (a directory sits at its path)",
                        blocked,
                        cfg.modes[blocked].name,
                        cfg.modes.len()
                    ),
                    case(),
                )),
                Ok(Err(_)) => {
                    st.count("fault_one_mode_file_blocked_error_returned");
                    if blocked + 1 < cfg.modes.len() {
                        st.count("fault_non_last_mode_file_blocked_error_returned");
                    }
                    st.nontrivial(hash_of(&(&cfg, &prefix, blocked)));
                    CaseOutcome::Ok
                }
            };
        }
    }
    let r = sut(|| scanner.generate_compiled_automata_as_dot(&prefix, &dir));
    let cleanup = |d: &Path| {
        let _ = std::fs::remove_dir_all(d);
    };
    match r {
        Err(pm) => {
            cleanup(&dir);
            return CaseOutcome::Violated(Violation::new(format!("generate_compiled_automata_as_dot panicked: {}", pm), case()));
        }
        Ok(Err(e)) => {
            cleanup(&dir);
            return CaseOutcome::Violated(Violation::new(format!("generate_compiled_automata_as_dot failed for a writable folder: {}", e), case()));
        }
        Ok(Ok(())) => {}
    }
    st.count("scanners_exported");
    if hostile_names {
        st.count("scanners_with_names_needing_escapes");
    }
    // file set
    let mut expected_files: Vec<String> = cfg.modes.iter().map(|m| format!("{}_{}.dot", prefix, m.name)).collect();
    expected_files.sort();
    let mut got_files: Vec<String> = std::fs::read_dir(&dir)
        .map(|rd| rd.flatten().map(|e| e.file_name().to_string_lossy().to_string()).collect())
        .unwrap_or_default();
    got_files.sort();
    if expected_files != got_files {
        cleanup(&dir);
        return CaseOutcome::Violated(Violation::new(
            format!("files written {:?}, expected one per mode: {:?}", got_files, expected_files),
            case(),
        ));
    }
    let dump = scanner.verif_dump();
    for (mi, m) in cfg.modes.iter().enumerate() {
        let path = dir.join(format!("{}_{}.dot", prefix, m.name));
        let text = match std::fs::read_to_string(&path) {
            Ok(t) => t,
            Err(e) => {
                cleanup(&dir);
                return CaseOutcome::Violated(Violation::new(format!("cannot read {:?}: {}", path, e), case()));
            }
        };
        st.count("files_checked");
        let g = match dotparse::parse(&text) {
            Ok(g) => g,
            Err(e) => {
                cleanup(&dir);
                let mut c = case();
                c["dot"] = json!(text);
                return CaseOutcome::Violated(
                    Violation::new(format!("the file for mode {:?} is not well-formed DOT: {}", m.name, e), c)
                        .with_signature(format!("not-well-formed hostile_names={}", hostile_names)),
                );
            }
        };
        if !g.subgraphs.is_empty() {
            st.count("files_with_clusters");
        }
        if text.contains("\\\"") || text.contains("\\\\") {
            st.count("files_with_escaped_labels");
        }
        if g.attr("label").is_none() {
            cleanup(&dir);
            return CaseOutcome::Violated(Violation::new(format!("mode {:?}: graph without label", m.name), case()));
        }
        if let Err(e) = compare_graph(&g, &dump[mi].automaton, &format!("mode {:?}", m.name)) {
            cleanup(&dir);
            let mut c = case();
            c["dot"] = json!(text);
            return CaseOutcome::Violated(Violation::new(e, c));
        }
        st.add("nodes_compared", dump[mi].automaton.states.len() as u64);
        st.add("edges_compared", dump[mi].automaton.states.iter().map(|s| s.len()).sum::<usize>() as u64);
    }
    cleanup(&dir);
    st.nontrivial(hash_of(&(&cfg, &prefix)));
    st.sample(json!({"patterns": cfg.describe(), "prefix": prefix}));
    CaseOutcome::Ok
}

/// Worker used for faults that need a non-root user: generates DOT files into `dir` as the current
/// (dropped) user and prints the outcome.
pub fn c18_worker(dir: &str) -> i32 {
    let mode = scnr::ScannerMode::new("M", vec![scnr::Pattern::new("a+".to_string(), 1)], Vec::<(usize, usize)>::new());
    let scanner = match scnr::ScannerBuilder::new().add_scanner_mode(mode).build_uncached() {
        Ok(s) => s,
        Err(e) => {
            println!("HARNESS build failed: {}", e);
            return 3;
        }
    };
    match sut(|| scanner.generate_compiled_automata_as_dot("W", Path::new(dir))) {
        Ok(Ok(())) => {
            println!("OK");
            0
        }
        Ok(Err(e)) => {
            println!("ERR {}", e);
            0
        }
        Err(p) => {
            println!("PANIC {}", p);
            0
        }
    }
}

fn fault_cases(ctx: &Ctx, res: &mut RunResult) {
    use std::os::unix::ffi::OsStringExt;
    let root = scratch_root().join(format!("faults{}", std::process::id()));
    let _ = std::fs::remove_dir_all(&root);
    std::fs::create_dir_all(&root).expect("scratch");
    let mode = scnr::ScannerMode::new("M", vec![scnr::Pattern::new("a+".to_string(), 1)], Vec::<(usize, usize)>::new());
    let scanner = scnr::ScannerBuilder::new().add_scanner_mode(mode).build_uncached().expect("trivial scanner");
    let reps = if ctx.tier == Tier::Quick { 20 } else { 60 };
    let mut run = |kind: &str, prefix: &str, target: &Path, must_fail: bool, res: &mut RunResult| {
        res.stats.evaluations += 1;
        res.stats.count(&format!("fault_{}", kind));
        let r = sut(|| scanner.generate_compiled_automata_as_dot(prefix, target));
        let case = json!({"kind": "c18_fault", "fault": kind, "target": target.to_string_lossy(), "prefix_len": prefix.len()});
        match r {
            Err(p) => res.violations.push(
                Violation::new(format!("fault {:?}: generate_compiled_automata_as_dot panicked instead of returning an error: {}", kind, p), case)
                    .with_signature(format!("fault-panic {}", kind)),
            ),
            Ok(Ok(())) if must_fail => res.violations.push(Violation::new(format!("fault {:?}: Ok(()) returned for a target that cannot be written", kind), case)),
            Ok(Ok(())) => {
                res.stats.count(&format!("fault_{}_ok", kind));
            }
            Ok(Err(e)) => {
                if !must_fail {
                    res.violations.push(Violation::new(format!("fault {:?}: error for a writable target: {}", kind, e), case));
                } else {
                    res.stats.count(&format!("fault_{}_error_returned", kind));
                    let msg = e.to_string();
                    res.stats.sample(json!({"fault": kind, "error": msg}));
                }
            }
        }
    };
    for k in 0..reps {
        // missing folder
        run("missing_folder", "F", &root.join(format!("does_not_exist_{}", k)), true, res);
        // folder path that is a regular file
        let file = root.join(format!("regular_file_{}", k));
        std::fs::write(&file, b"x").unwrap();
        run("folder_is_a_file", "F", &file, true, res);
        // over-long file name
        let long = "L".repeat(300 + k);
        run("overlong_file_name", &long, &root, true, res);
        // missing folder with a non-UTF-8 name
        let bad = std::ffi::OsString::from_vec(vec![b'n', b'o', 0xFF, 0xFE, b'0' + (k % 10) as u8]);
        run("missing_non_utf8_folder", "F", &root.join(&bad), true, res);
        // existing, writable folder with a non-UTF-8 name: must simply work
        let good = root.join(std::ffi::OsString::from_vec(vec![b'o', b'k', 0xFF, b'0' + (k % 10) as u8]));
        let _ = std::fs::create_dir_all(&good);
        run("existing_non_utf8_folder", "F", &good, false, res);
        // read-only pseudo file system
        run("read_only_sysfs", "F", Path::new("/sys"), true, res);
    }
    // chmod 0555 folder written from a worker running as uid 65534 (root ignores modes)
    {
        use std::os::unix::fs::PermissionsExt;
        use std::os::unix::process::CommandExt;
        let ro = root.join("readonly");
        std::fs::create_dir_all(&ro).unwrap();
        let _ = std::fs::set_permissions(&root, std::fs::Permissions::from_mode(0o755));
        std::fs::set_permissions(&ro, std::fs::Permissions::from_mode(0o555)).unwrap();
        // the path down to the folder must be searchable for the dropped user
        let exe = std::env::current_exe().unwrap();
        for _ in 0..reps.min(20) {
            res.stats.evaluations += 1;
            let out = std::process::Command::new(&exe).arg("c18worker").arg(&ro).uid(65534).gid(65534).output();
            match out {
                Err(e) => {
                    res.stats.count("fault_readonly_folder_worker_not_started");
                    res.stats.sample(json!({"worker_error": e.to_string()}));
                }
                Ok(o) => {
                    let text = String::from_utf8_lossy(&o.stdout).to_string();
                    if text.starts_with("ERR") {
                        res.stats.count("fault_readonly_folder_error_returned");
                        res.stats.sample(json!({"fault": "readonly_folder_as_uid_65534", "error": text.trim()}));
                    } else if text.starts_with("PANIC") {
                        res.violations.push(Violation::new(format!("read-only folder: panic instead of an error: {}", text.trim()), json!({"kind": "c18_fault", "fault": "readonly_folder"})));
                    } else if text.starts_with("OK") {
                        res.violations.push(Violation::new("read-only folder (mode 0555, uid 65534): Ok(()) returned", json!({"kind": "c18_fault", "fault": "readonly_folder"})));
                    } else {
                        res.stats.count("fault_readonly_folder_worker_not_started");
                        res.stats.sample(json!({"worker_output": text, "status": format!("{:?}", o.status), "stderr": String::from_utf8_lossy(&o.stderr).to_string()}));
                    }
                }
            }
        }
        let _ = std::fs::set_permissions(&ro, std::fs::Permissions::from_mode(0o755));
    }
    let _ = std::fs::remove_dir_all(&root);
}

pub fn c18(tier: Tier) -> i32 {
    let ctx = Ctx::new("C18", tier, "exploration");
    if std::env::var("VERIF_HOOKS").map_or(false, |v| v == "0") {
        println!("INCONCLUSIVE property=C18 reason=the tree under test does not compile with the hook feature");
        return 2;
    }
    let _ = std::fs::create_dir_all(scratch_root());
    let n = ctx.scale(3_000, 150_000);
    let mut res = run_cases(&ctx, 1, n, |rng, i, st| c18_case(rng, i, st));
    fault_cases(&ctx, &mut res);
    let _ = std::fs::remove_dir_all(scratch_root());
    let report = Report::new(
        "random configurations with 1-4 distinctly named modes (identifier-like names; in a quarter of the cases names with spaces, quotes, backslashes, newlines and non-ASCII letters), lookaheads, classes and patterns whose text needs escaping in labels; every written file is parsed by a strict DOT parser and compared with the hook's dump of the same scanner: file set (one per mode, named <prefix>_<mode>.dot), node set, accepting labels '<state> T<type>', edge multiset (from, to, class id), one cluster per lookahead labelled 'LA for T<type>(Pos|Neg)' with nodes prefixed '<type>_'. Faults: missing folder, folder path that is a regular file, over-long file name, missing folder with a non-UTF-8 name, existing writable folder with a non-UTF-8 name (must work), /sys (EACCES even for root), and a chmod 0555 folder written from a worker process running as uid 65534; each must return Err (or Ok for the writable one), never panic. Distinct by hash of (configuration, prefix).",
    )
    .floor("scanners_exported", 2_000)
    .floor("files_with_clusters", 500)
    .floor("exports_over_existing_larger_files", 500)
    .floor("exports_with_dots_in_prefix_or_mode_name", 500)
    .floor("files_with_escaped_labels", 500)
    .floor("scanners_with_backslash_quote_patterns", 100)
    .floor("modes_with_a_lookahead_token_type_shared_by_two_patterns", 100)
    .floor("scanners_with_names_needing_escapes", 300)
    .floor("fault_missing_folder_error_returned", 20)
    .floor("fault_folder_is_a_file_error_returned", 20)
    .floor("fault_overlong_file_name_error_returned", 20)
    .floor("fault_missing_non_utf8_folder_error_returned", 20)
    .floor("fault_existing_non_utf8_folder_ok", 20)
    .floor("fault_read_only_sysfs_error_returned", 20)
    .floor("fault_readonly_folder_error_returned", 10)
    .floor("fault_non_last_mode_file_blocked_error_returned", 30)
    .assume("mode names do not contain '/' or NUL (the file name is derived from them) and are distinct within a scanner")
    .assume("hook H1 reports the compiled automaton faithfully (C02 validates the same dump against the patterns)");
    finish(&ctx, res, report)
}
