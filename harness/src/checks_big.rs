//! C17: large automata compile correctly or not at all (the 2^16 state boundary).
#![cfg(feature = "hooks")]
use crate::lang::*;
use crate::monitor::*;
use crate::rng::Rng;
use crate::wf::*;
use serde_json::json;
use std::collections::{BTreeSet, HashMap};
use std::time::Instant;

struct Outcome {
    stats: Stats,
    violation: Option<Violation>,
    note: Option<String>,
}

fn keywords(seed: u64, n: usize, len: usize) -> Vec<String> {
    let mut rng = Rng::new(seed ^ 0xC17);
    let mut set = BTreeSet::new();
    while set.len() < n {
        let s: String = (0..len).map(|_| (b'a' + rng.below(26) as u8) as char).collect();
        set.insert(s);
    }
    let mut v: Vec<String> = set.into_iter().collect();
    rng.shuffle(&mut v);
    v
}

/// Shape K: n distinct keywords of `len` letters; distinct token types (or one shared type).
fn keyword_shape(seed: u64, n: usize, len: usize, shared_type: bool, tag: &str) -> Outcome {
    let mut st = Stats::default();
    let kws = keywords(seed, n, len);
    let tt_of = |i: usize| if shared_type { 7 } else { i + 1 };
    let pats: Vec<scnr::Pattern> = kws.iter().enumerate().map(|(i, s)| scnr::Pattern::new(s.clone(), tt_of(i))).collect();
    let mode = scnr::ScannerMode::new("K", pats, Vec::<(usize, usize)>::new());
    let case = json!({"kind": "c17", "shape": tag, "keywords": n, "letters": len, "shared_type": shared_type, "seed": seed});
    let t0 = Instant::now();
    scnr::verif_hooks::minimizer_take();
    scnr::verif_hooks::minimizer_arm(true);
    let built = sut(|| scnr::ScannerBuilder::new().add_scanner_mode(mode).build_uncached());
    scnr::verif_hooks::minimizer_arm(false);
    let pairs = scnr::verif_hooks::minimizer_take();
    st.add(&format!("build_seconds_{}", tag), t0.elapsed().as_secs());
    let scanner = match built {
        Err(p) => return Outcome { stats: st, violation: Some(Violation::new(format!("{}: building panicked: {}", tag, p), case)), note: None },
        Ok(Err(e)) => {
            // rejected with an error: allowed by the statement
            st.count("large_mode_rejected_with_error");
            return Outcome { stats: st, violation: None, note: Some(format!("{} rejected: {}", tag, e)) };
        }
        Ok(Ok(s)) => s,
    };
    st.count("large_modes_built");
    let (before, after) = match pairs.first() {
        Some(p) => (p.0.states.len(), p.1.states.len()),
        None => (0, 0),
    };
    st.add("max_states_before_minimization", 0);
    if before as u64 > st.get("max_states_before_minimization") {
        st.counters.insert("max_states_before_minimization".into(), before as u64);
    }
    if before >= 65_537 {
        st.count("modes_with_more_than_65535_states_before_minimization");
    }
    if after >= 65_537 {
        st.count("modes_with_more_than_65535_states_after_minimization");
    }
    st.sample(json!({"shape": tag, "keywords": n, "letters": len, "states_before_minimization": before, "states_after_minimization": after, "build_seconds": t0.elapsed().as_secs()}));
    // probes: the longest-match rule is trivial for this shape
    let map: HashMap<&str, usize> = kws.iter().enumerate().map(|(i, s)| (s.as_str(), tt_of(i))).collect();
    let expected = |input: &str| -> Vec<Tok> {
        let mut out = Vec::new();
        let mut p = 0;
        while p < input.len() {
            if p + len <= input.len() {
                if let Some(tt) = map.get(&input[p..p + len]) {
                    out.push(Tok { tt: *tt, start: p, end: p + len });
                    p += len;
                    continue;
                }
            }
            p += 1;
        }
        out
    };
    let mut rng = Rng::new(seed ^ 0xBEEF);
    let mut probes: Vec<String> = Vec::new();
    for (i, k) in kws.iter().enumerate() {
        probes.push(k.clone());
        if i % 3 == 0 {
            probes.push(k[..len - 1].to_string());
        }
        if i % 5 == 0 {
            // a non-keyword: last letter changed
            let mut s = k[..len - 1].to_string();
            s.push((b'a' + rng.below(26) as u8) as char);
            probes.push(s);
        }
        if i % 11 == 0 {
            probes.push(format!("{}{}z{}", k, kws[rng.below(n)], kws[rng.below(n)]));
        }
        if i % 4 == 0 && len >= 2 {
            // spliced word: head of this keyword, tail of another one (a non-keyword unless it
            // happens to be one; the reference decides)
            let other = &kws[rng.below(n)];
            let cut = rng.range(1, len - 1);
            probes.push(format!("{}{}", &k[..cut], &other[cut..]));
        }
    }
    for input in &probes {
        st.count("probes");
        let exp = expected(input);
        match scan_all(&scanner, input, 0, 0) {
            Err(e) => {
                return Outcome { stats: st, violation: Some(Violation::new(format!("{}: {} on probe {:?}", tag, e, input), case)), note: None };
            }
            Ok(got) => {
                if got != exp {
                    let mut c = case.clone();
                    c["probe"] = json!(input);
                    return Outcome {
                        stats: st,
                        violation: Some(
                            Violation::new(
                                format!(
                                    "{}: a mode with {} states before / {} after minimization was built without error but tokenizes {:?} as {:?}, the longest-match rule gives {:?}",
                                    tag, before, after, input, got, exp
                                ),
                                c,
                            )
                            .with_signature(format!("large-automaton mis-tokenization {}", tag)),
                        ),
                        note: None,
                    };
                }
            }
        }
    }
    // independent view: the minimizer pair through the C03 checker at symbol level
    if let Some((b, a)) = pairs.first() {
        let nletters = max_class_id(b).max(max_class_id(a)).max(1);
        let sym = symbolic_membership(nletters);
        match pair_equiv(b, &sym, a, &sym, nletters, 2_000_000) {
            PairResult::Equivalent { product_states } => {
                st.add("minimizer_pair_product_states", product_states as u64);
                st.count("minimizer_pairs_equivalent");
            }
            PairResult::Budget => st.count("minimizer_pair_budget_exhausted"),
            PairResult::Different { path, acc_a, acc_b } => {
                return Outcome {
                    stats: st,
                    violation: Some(Violation::new(
                        format!(
                            "{}: the minimized automaton ({} states) is not equivalent to the automaton before minimization ({} states): on the class path {:?} they accept {:?} vs {:?}",
                            tag, after, before, path, acc_a, acc_b
                        ),
                        case,
                    )
                    .with_signature(format!("large-automaton minimizer pair {}", tag))),
                    note: None,
                };
            }
        }
    }
    Outcome { stats: st, violation: None, note: None }
}

/// Shape C: n distinct single characters (supplementary plane, 4 bytes each) as n patterns with
/// distinct token types: n + 1 states, n character classes and n accepting groups - the boundary is
/// crossed by the number of classes and groups, not by the length of anything.
fn class_shape(seed: u64, n: usize) -> Outcome {
    let mut st = Stats::default();
    let tag = format!("C{}x1", n);
    let mut rng = Rng::new(seed ^ 0xC1A55);
    let mut chars: Vec<char> = (0..n).map(|i| char::from_u32(0x10000 + 3 * i as u32).unwrap()).collect();
    rng.shuffle(&mut chars);
    let pats: Vec<scnr::Pattern> = chars.iter().enumerate().map(|(i, c)| scnr::Pattern::new(c.to_string(), i + 1)).collect();
    let mode = scnr::ScannerMode::new("C", pats, Vec::<(usize, usize)>::new());
    let case = json!({"kind": "c17", "shape": tag, "seed": seed});
    let t0 = Instant::now();
    scnr::verif_hooks::minimizer_take();
    scnr::verif_hooks::minimizer_arm(true);
    let built = sut(|| scnr::ScannerBuilder::new().add_scanner_mode(mode).build_uncached());
    scnr::verif_hooks::minimizer_arm(false);
    let pairs = scnr::verif_hooks::minimizer_take();
    st.add(&format!("build_seconds_{}", tag), t0.elapsed().as_secs());
    let scanner = match built {
        Err(p) => return Outcome { stats: st, violation: Some(Violation::new(format!("{}: building panicked: {}", tag, p), case)), note: None },
        Ok(Err(e)) => {
            st.count("large_mode_rejected_with_error");
            return Outcome { stats: st, violation: None, note: Some(format!("{} rejected: {}", tag, e)) };
        }
        Ok(Ok(s)) => s,
    };
    st.count("large_modes_built");
    let (before, after) = match pairs.first() {
        Some(p) => (p.0.states.len(), p.1.states.len()),
        None => (0, 0),
    };
    st.counters.insert("max_states_before_minimization".into(), before as u64);
    if before >= 65_537 {
        st.count("modes_with_more_than_65535_states_before_minimization");
        st.count("modes_with_more_than_65535_character_classes");
    }
    if after >= 65_537 {
        st.count("modes_with_more_than_65535_states_after_minimization");
    }
    st.sample(json!({"shape": tag, "patterns": n, "states_before_minimization": before, "states_after_minimization": after, "build_seconds": t0.elapsed().as_secs()}));
    let map: HashMap<char, usize> = chars.iter().enumerate().map(|(i, c)| (*c, i + 1)).collect();
    let expected = |input: &str| -> Vec<Tok> {
        input.char_indices().filter_map(|(o, c)| map.get(&c).map(|tt| Tok { tt: *tt, start: o, end: o + c.len_utf8() })).collect()
    };
    let mut probes: Vec<String> = Vec::new();
    for (i, c) in chars.iter().enumerate() {
        if i % 3 == 0 {
            probes.push(c.to_string());
        }
        if i % 7 == 0 {
            // neighbours in the code space that are not patterns, and a second member
            let miss = char::from_u32(*c as u32 + 1).unwrap();
            probes.push(format!("{}{}z{}", miss, c, chars[rng.below(n)]));
        }
        if i % 50 == 0 {
            let s: String = (0..40).map(|_| chars[rng.below(n)]).collect();
            probes.push(s);
        }
    }
    for input in &probes {
        st.count("probes");
        let exp = expected(input);
        match scan_all(&scanner, input, 0, 0) {
            Err(e) => return Outcome { stats: st, violation: Some(Violation::new(format!("{}: {} on probe {:?}", tag, e, input), case)), note: None },
            Ok(got) => {
                if got != exp {
                    let mut c = case.clone();
                    c["probe"] = json!(input);
                    return Outcome {
                        stats: st,
                        violation: Some(
                            Violation::new(
                                format!(
                                    "{}: a mode with {} states before / {} after minimization was built without error but tokenizes {:?} as {:?}, the longest-match rule gives {:?}",
                                    tag, before, after, input, got, exp
                                ),
                                c,
                            )
                            .with_signature(format!("large-automaton mis-tokenization {}", tag)),
                        ),
                        note: None,
                    };
                }
            }
        }
    }
    Outcome { stats: st, violation: None, note: None }
}

/// Shape M: the same 66 000 single-character patterns spread over 66 modes of 1 000 patterns each.
/// No mode is large, but the scanner as a whole registers more than 65 536 character classes (the
/// registry is shared by all modes) - "the size of a pattern set does not affect correctness". Builds
/// in seconds, so it is part of the quick tier.
fn many_modes_class_shape(seed: u64, n_modes: usize, per_mode: usize) -> Outcome {
    let mut st = Stats::default();
    let tag = format!("M{}x{}", n_modes, per_mode);
    let mut rng = Rng::new(seed ^ 0x4D4F44);
    let n = n_modes * per_mode;
    let mut chars: Vec<char> = (0..n).map(|i| char::from_u32(0x20000 + 2 * i as u32).unwrap()).collect();
    rng.shuffle(&mut chars);
    let modes: Vec<scnr::ScannerMode> = (0..n_modes)
        .map(|m| {
            let pats: Vec<scnr::Pattern> = (0..per_mode).map(|j| scnr::Pattern::new(chars[m * per_mode + j].to_string(), m * per_mode + j + 1)).collect();
            scnr::ScannerMode::new(&format!("M{}", m), pats, Vec::<(usize, usize)>::new())
        })
        .collect();
    let case = json!({"kind": "c17", "shape": tag, "seed": seed});
    let t0 = Instant::now();
    let built = sut(|| scnr::ScannerBuilder::new().add_scanner_modes(&modes).build_uncached());
    st.add(&format!("build_seconds_{}", tag), t0.elapsed().as_secs());
    let scanner = match built {
        Err(p) => return Outcome { stats: st, violation: Some(Violation::new(format!("{}: building panicked: {}", tag, p), case)), note: None },
        Ok(Err(e)) => {
            st.count("large_pattern_set_rejected_with_error");
            return Outcome { stats: st, violation: None, note: Some(format!("{} rejected: {}", tag, e)) };
        }
        Ok(Ok(s)) => s,
    };
    st.count("scanners_with_more_than_65536_character_classes_built");
    st.sample(json!({"shape": tag, "modes": n_modes, "patterns_per_mode": per_mode, "character_classes": n, "build_seconds": t0.elapsed().as_secs()}));
    // every mode: a probe of 30 of its own characters mixed with characters of other modes
    for m in 0..n_modes {
        let own: Vec<usize> = (0..30).map(|_| m * per_mode + rng.below(per_mode)).collect();
        let mut input = String::new();
        let mut exp: Vec<Tok> = Vec::new();
        for (k, idx) in own.iter().enumerate() {
            let c = chars[*idx];
            exp.push(Tok { tt: idx + 1, start: input.len(), end: input.len() + c.len_utf8() });
            input.push(c);
            if k % 3 == 0 {
                // a character that belongs to another mode: unmatched here
                let other = chars[(((m + 1 + rng.below(n_modes - 1)) % n_modes) * per_mode) + rng.below(per_mode)];
                input.push(other);
            }
        }
        st.count("probes");
        match scan_all(&scanner, &input, 0, m) {
            Err(e) => return Outcome { stats: st, violation: Some(Violation::new(format!("{}: {} in mode {}", tag, e, m), case)), note: None },
            Ok(got) => {
                if got != exp {
                    let first_bad = got.iter().zip(exp.iter()).position(|(a, b)| a != b).unwrap_or(got.len().min(exp.len()));
                    return Outcome {
                        stats: st,
                        violation: Some(
                            Violation::new(
                                format!(
                                    "{}: a scanner with {} single-character patterns in {} modes was built without error but mode {} tokenizes its probe into {} tokens instead of {} (first difference at token #{}: {:?} instead of {:?})",
                                    tag, n, n_modes, m, got.len(), exp.len(), first_bad, got.get(first_bad), exp.get(first_bad)
                                ),
                                case,
                            )
                            .with_signature(format!("large-pattern-set mis-tokenization {}", tag)),
                        ),
                        note: None,
                    };
                }
            }
        }
    }
    Outcome { stats: st, violation: None, note: None }
}

/// Shape R: a{N}b.
fn repetition_shape(n: usize) -> Outcome {
    let mut st = Stats::default();
    let tag = format!("a{{{}}}b", n);
    let case = json!({"kind": "c17", "shape": tag});
    let mode = scnr::ScannerMode::new("R", vec![scnr::Pattern::new(format!("a{{{}}}b", n), 5)], Vec::<(usize, usize)>::new());
    let t0 = Instant::now();
    scnr::verif_hooks::minimizer_take();
    scnr::verif_hooks::minimizer_arm(true);
    let built = sut(|| scnr::ScannerBuilder::new().add_scanner_mode(mode).build_uncached());
    scnr::verif_hooks::minimizer_arm(false);
    let pairs = scnr::verif_hooks::minimizer_take();
    let scanner = match built {
        Err(p) => return Outcome { stats: st, violation: Some(Violation::new(format!("{}: building panicked: {}", tag, p), case)), note: None },
        Ok(Err(e)) => {
            st.count("large_mode_rejected_with_error");
            return Outcome { stats: st, violation: None, note: Some(format!("{} rejected: {}", tag, e)) };
        }
        Ok(Ok(s)) => s,
    };
    let before = pairs.first().map_or(0, |p| p.0.states.len());
    if before >= 65_537 {
        st.count("modes_with_more_than_65535_states_before_minimization");
        st.count("large_modes_built");
    } else {
        st.count("repetition_modes_below_the_boundary");
    }
    st.sample(json!({"shape": tag, "states_before_minimization": before, "build_seconds": t0.elapsed().as_secs()}));
    let mut lens: Vec<(usize, bool)> = vec![(n, true), (n - 1, false), (n + 1, false), (1, false)];
    if n > 65_536 {
        lens.push((n - 65_536, false));
    }
    for (k, full) in lens {
        st.count("probes");
        let mut input = "a".repeat(k);
        input.push('b');
        // expected: exact length -> one token spanning everything; one more 'a' -> the token starts
        // at offset 1; fewer -> nothing
        let exp: Vec<Tok> = if full {
            vec![Tok { tt: 5, start: 0, end: n + 1 }]
        } else if k == n + 1 {
            vec![Tok { tt: 5, start: 1, end: n + 2 }]
        } else {
            vec![]
        };
        match scan_all(&scanner, &input, 0, 0) {
            Err(e) => return Outcome { stats: st, violation: Some(Violation::new(format!("{}: {} on a^{} b", tag, e, k), case)), note: None },
            Ok(got) => {
                if got != exp {
                    let shown: Vec<&Tok> = got.iter().take(4).collect();
                    return Outcome {
                        stats: st,
                        violation: Some(
                            Violation::new(
                                format!(
                                    "{}: built without error ({} states before minimization) but a^{} b is tokenized into {} tokens (first: {:?}), the rule gives {:?}",
                                    tag, before, k, got.len(), shown, exp
                                ),
                                case,
                            )
                            .with_signature(format!("large-automaton mis-tokenization {}", tag)),
                        ),
                        note: None,
                    };
                }
            }
        }
    }
    Outcome { stats: st, violation: None, note: None }
}

pub fn c17(tier: Tier) -> i32 {
    let ctx = Ctx::new("C17", tier, "exploration");
    if std::env::var("VERIF_HOOKS").map_or(false, |v| v == "0") {
        println!("INCONCLUSIVE property=C17 reason=the tree under test does not compile with the hook feature");
        return 2;
    }
    let seed = ctx.seed;
    let mut jobs: Vec<Box<dyn FnOnce() -> Outcome + Send>> = Vec::new();
    // crossing shape K: 8300 distinct 8-letter keywords, distinct token types (66401 states and
    // more than 2^16 partition groups)
    jobs.push(Box::new(move || keyword_shape(seed, 8_300, 8, false, "K8300x8")));
    // below the boundary: a{N}b
    jobs.push(Box::new(|| {
        let mut o = repetition_shape(1_500);
        for n in [3_000usize, 6_000] {
            if o.violation.is_some() {
                break;
            }
            let o2 = repetition_shape(n);
            o.stats.merge(o2.stats);
            o.violation = o2.violation;
        }
        o
    }));
    // small keyword shapes below the boundary with the same probes (sanity of the probe oracle)
    jobs.push(Box::new(move || keyword_shape(seed + 1, 500, 6, false, "K500x6")));
    jobs.push(Box::new(move || class_shape(seed + 6, 3_000)));
    jobs.push(Box::new(move || many_modes_class_shape(seed + 7, 66, 1_000)));
    if tier == Tier::Thorough {
        jobs.push(Box::new(move || keyword_shape(seed + 2, 16_400, 4, false, "K16400x4")));
        jobs.push(Box::new(move || keyword_shape(seed + 3, 8_300, 8, true, "K8300x8_shared_type")));
        jobs.push(Box::new(move || keyword_shape(seed + 4, 4_100, 16, false, "K4100x16")));
        jobs.push(Box::new(|| repetition_shape(66_000)));
        jobs.push(Box::new(move || class_shape(seed + 5, 66_000)));
    }
    let results: Vec<Outcome> = std::thread::scope(|s| {
        let hs: Vec<_> = jobs.into_iter().map(|j| s.spawn(j)).collect();
        hs.into_iter()
            .map(|h| {
                h.join().unwrap_or_else(|_| Outcome {
                    stats: Stats::default(),
                    violation: None,
                    note: Some("harness panic".into()),
                })
            })
            .collect()
    });
    let mut res = RunResult::new();
    let mut notes = Vec::new();
    for (i, o) in results.into_iter().enumerate() {
        res.stats.evaluations += 1;
        res.stats.nontrivial(i as u64 + 1);
        // max is not additive
        let prev_max = res.stats.get("max_states_before_minimization");
        let this_max = o.stats.get("max_states_before_minimization");
        res.stats.merge(o.stats);
        res.stats.counters.insert("max_states_before_minimization".into(), prev_max.max(this_max));
        if let Some(v) = o.violation {
            res.violations.push(v);
        }
        if let Some(n) = o.note {
            if n == "harness panic" {
                res.harness_errors.push(n);
            } else {
                notes.push(n);
            }
        }
    }
    let mut report = Report::new(
        "fixed entry price: every construction that crosses 2^16 states needs >= 65537 states through builders that are quadratic or worse. Quick: (K) one mode of 8300 distinct random 8-letter keywords with distinct token types (66401 states before and after minimization, i.e. more than 2^16 partition groups) probed with every keyword (one token, own type, span 0..8), keywords minus their last letter, keywords with another last letter and words spliced from the head of one keyword and the tail of another (nothing), and concatenations; a{N}b for N in {1500, 3000, 6000} a 500-keyword mode and a mode of 3000 single-character patterns below the boundary; (M) 66 000 single-character patterns spread over 66 modes (no mode is large, but the scanner registers more than 65 536 character classes), every mode probed; the minimizer's (before, after) pair of the large mode also goes through the C03 pair checker at symbol level. Thorough adds 16400x4-letter and 4100x16-letter keyword modes, an 8300-keyword mode with one shared token type, a mode of 66000 single-character patterns (supplementary-plane characters, distinct token types: 66001 states, 66000 character classes and accepting groups), and a{66000}b with inputs a^N b, a^(N-1) b, a^(N+1) b, a^(N-65536) b. A mode that is rejected with an error is accepted by the statement and counted. The hook reports the state counts actually reached.",
    )
    .floor("modes_with_more_than_65535_states_before_minimization", 1)
    .floor("probes", 1_000)
    .floor("large_modes_built", 1)
    .assume("distinct_nontrivial counts the distinct large configurations built in this run (a handful by construction)");
    if !notes.is_empty() {
        report = report.extra("notes", json!(notes));
    }
    finish(&ctx, res, report)
}
