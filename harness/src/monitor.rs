//! Runtime infrastructure of the monitors: panic capture, parallel case runner, observation
//! counters, three-valued verdicts, evidence and replay writers, known findings.
use crate::rng::Rng;
use serde_json::{json, Value};
use std::cell::RefCell;
use std::collections::{BTreeMap, HashSet};
use std::panic::{catch_unwind, AssertUnwindSafe};
use std::sync::atomic::{AtomicBool, AtomicUsize, Ordering};
use std::sync::Mutex;
use std::time::Instant;

pub const VERIF_DIR: &str = "/verif";

#[derive(Clone, Copy, Debug, PartialEq, Eq)]
pub enum Tier {
    Quick,
    Thorough,
}

impl Tier {
    pub fn name(self) -> &'static str {
        match self {
            Tier::Quick => "quick",
            Tier::Thorough => "thorough",
        }
    }
}

thread_local! {
    static LAST_PANIC: RefCell<Option<String>> = const { RefCell::new(None) };
    static QUIET: RefCell<bool> = const { RefCell::new(false) };
}

/// Installs a panic hook that stays silent while a monitored call runs and remembers the message.
pub fn install_panic_hook() {
    let default = std::panic::take_hook();
    std::panic::set_hook(Box::new(move |info| {
        let msg = if let Some(s) = info.payload().downcast_ref::<&str>() {
            s.to_string()
        } else if let Some(s) = info.payload().downcast_ref::<String>() {
            s.clone()
        } else {
            "<non-string panic>".to_string()
        };
        let loc = info
            .location()
            .map(|l| format!("{}:{}", l.file(), l.line()))
            .unwrap_or_default();
        let quiet = QUIET.with(|q| *q.borrow());
        LAST_PANIC.with(|p| *p.borrow_mut() = Some(format!("{} at {}", msg, loc)));
        if !quiet {
            default(info);
        }
    }));
}

/// Runs a call into the system under test; a panic is captured and returned as Err(message).
pub fn sut<T>(f: impl FnOnce() -> T) -> Result<T, String> {
    let was = QUIET.with(|q| std::mem::replace(&mut *q.borrow_mut(), true));
    let r = catch_unwind(AssertUnwindSafe(f));
    QUIET.with(|q| *q.borrow_mut() = was);
    match r {
        Ok(v) => Ok(v),
        Err(_) => Err(LAST_PANIC
            .with(|p| p.borrow_mut().take())
            .unwrap_or_else(|| "<panic>".to_string())),
    }
}

/// What a monitor observed: counters of trigger events, distinct non-trivial cases, samples.
#[derive(Default, Clone)]
pub struct Stats {
    pub evaluations: u64,
    pub counters: BTreeMap<String, u64>,
    pub distinct: HashSet<u64>,
    pub samples: Vec<Value>,
    pub skipped: u64,
}

impl Stats {
    #[inline]
    pub fn count(&mut self, key: &str) {
        self.add(key, 1);
    }
    pub fn add(&mut self, key: &str, n: u64) {
        if n == 0 {
            return;
        }
        if let Some(v) = self.counters.get_mut(key) {
            *v += n;
        } else {
            self.counters.insert(key.to_string(), n);
        }
    }
    pub fn get(&self, key: &str) -> u64 {
        self.counters.get(key).cloned().unwrap_or(0)
    }
    /// Registers a distinct non-trivial case by the hash of its content.
    pub fn nontrivial(&mut self, h: u64) {
        self.distinct.insert(h);
    }
    pub fn sample(&mut self, v: Value) {
        if self.samples.len() < 4 {
            self.samples.push(v);
        }
    }
    pub fn merge(&mut self, other: Stats) {
        self.evaluations += other.evaluations;
        self.skipped += other.skipped;
        for (k, v) in other.counters {
            self.add(&k, v);
        }
        self.distinct.extend(other.distinct);
        for s in other.samples {
            if self.samples.len() < 6 {
                self.samples.push(s);
            }
        }
    }
}

pub fn hash_of<T: std::hash::Hash>(t: &T) -> u64 {
    use std::hash::Hasher;
    let mut h = std::collections::hash_map::DefaultHasher::new();
    t.hash(&mut h);
    h.finish()
}

#[derive(Clone, Debug)]
pub struct Violation {
    /// One line: what was refuted.
    pub what: String,
    /// Canonical signature used to match known findings.
    pub signature: String,
    /// The complete case, replayable.
    pub case: Value,
}

impl Violation {
    pub fn new(what: impl Into<String>, case: Value) -> Self {
        let what = what.into();
        Violation {
            signature: what.clone(),
            what,
            case,
        }
    }
    pub fn with_signature(mut self, s: impl Into<String>) -> Self {
        self.signature = s.into();
        self
    }
}

pub enum CaseOutcome {
    Ok,
    /// The case lies outside the domain of the property or a harness guard rejected it.
    Skipped,
    Violated(Violation),
}

pub struct Ctx {
    pub prop: String,
    pub tier: Tier,
    pub seed: u64,
    pub threads: usize,
    pub start: Instant,
    pub level: &'static str,
}

impl Ctx {
    pub fn new(prop: &str, tier: Tier, level: &'static str) -> Ctx {
        let seed = std::env::var("VERIF_SEED")
            .ok()
            .and_then(|s| s.trim().parse::<u64>().ok())
            .unwrap_or(1);
        let threads = std::env::var("VERIF_THREADS")
            .ok()
            .and_then(|s| s.parse().ok())
            .unwrap_or_else(|| {
                std::thread::available_parallelism()
                    .map(|n| n.get())
                    .unwrap_or(4)
                    .min(16)
            });
        Ctx {
            prop: prop.to_string(),
            tier,
            seed,
            threads,
            start: Instant::now(),
            level,
        }
    }
    pub fn scale(&self, quick: u64, thorough: u64) -> u64 {
        let base = match self.tier {
            Tier::Quick => quick,
            Tier::Thorough => thorough,
        };
        // VERIF_SCALE (percent) lets sanitizer builds run a slice of the same workload.
        let pct = std::env::var("VERIF_SCALE")
            .ok()
            .and_then(|s| s.parse::<u64>().ok())
            .unwrap_or(100);
        (base * pct / 100).max(1)
    }
}

pub const MAX_VIOLATIONS_KEPT: usize = 8;

/// Result of running a workload.
pub struct RunResult {
    pub stats: Stats,
    pub violations: Vec<Violation>,
    pub harness_errors: Vec<String>,
}

impl RunResult {
    pub fn new() -> Self {
        RunResult {
            stats: Stats::default(),
            violations: vec![],
            harness_errors: vec![],
        }
    }
    pub fn merge(&mut self, o: RunResult) {
        self.stats.merge(o.stats);
        self.violations.extend(o.violations);
        self.harness_errors.extend(o.harness_errors);
    }
}

/// Runs `n_cases` cases of workload stream `stream` on all worker threads. Case `i` always uses
/// the generator `Rng::for_case(seed, stream, i)`, whatever the number of threads.
pub fn run_cases<F>(ctx: &Ctx, stream: u64, n_cases: u64, f: F) -> RunResult
where
    F: Fn(&mut Rng, u64, &mut Stats) -> CaseOutcome + Sync,
{
    let next = AtomicUsize::new(0);
    let stop = AtomicBool::new(false);
    let nviol = AtomicUsize::new(0);
    let result = Mutex::new(RunResult::new());
    let threads = ctx.threads.max(1);
    std::thread::scope(|s| {
        for _ in 0..threads {
            s.spawn(|| {
                let mut local = RunResult::new();
                loop {
                    if stop.load(Ordering::Relaxed) {
                        break;
                    }
                    let i = next.fetch_add(1, Ordering::Relaxed) as u64;
                    if i >= n_cases {
                        break;
                    }
                    let mut rng = Rng::for_case(ctx.seed, stream, i);
                    let stats = &mut local.stats;
                    let r = catch_unwind(AssertUnwindSafe(|| f(&mut rng, i, stats)));
                    match r {
                        Ok(CaseOutcome::Ok) => local.stats.evaluations += 1,
                        Ok(CaseOutcome::Skipped) => local.stats.skipped += 1,
                        Ok(CaseOutcome::Violated(mut v)) => {
                            local.stats.evaluations += 1;
                            if let Value::Object(m) = &mut v.case {
                                m.insert("stream".into(), json!(stream));
                                m.insert("index".into(), json!(i));
                                m.insert("seed".into(), json!(ctx.seed));
                            }
                            local.violations.push(v);
                            if nviol.fetch_add(1, Ordering::Relaxed) + 1 >= MAX_VIOLATIONS_KEPT {
                                stop.store(true, Ordering::Relaxed);
                            }
                        }
                        Err(_) => {
                            let msg = LAST_PANIC
                                .with(|p| p.borrow_mut().take())
                                .unwrap_or_default();
                            local.harness_errors.push(format!(
                                "harness panic in stream {} case {}: {}",
                                stream, i, msg
                            ));
                            stop.store(true, Ordering::Relaxed);
                        }
                    }
                }
                result.lock().unwrap().merge(local);
            });
        }
    });
    result.into_inner().unwrap()
}

// ------------------------------------------------------------------------------------------------
// Known findings
// ------------------------------------------------------------------------------------------------

#[derive(Clone, Debug)]
pub struct KnownFinding {
    pub property: String,
    pub id: String,
    pub status: String,
    pub what: String,
    /// A violation matches if its signature contains this string.
    pub signature_contains: String,
}

pub fn load_known_findings() -> Vec<KnownFinding> {
    let path = format!("{}/known_findings.json", VERIF_DIR);
    let Ok(text) = std::fs::read_to_string(&path) else {
        return vec![];
    };
    let Ok(v) = serde_json::from_str::<Value>(&text) else {
        eprintln!("WARNING: {} is not valid JSON; ignoring", path);
        return vec![];
    };
    let mut out = vec![];
    if let Some(arr) = v.get("findings").and_then(|f| f.as_array()) {
        for e in arr {
            let g = |k: &str| e.get(k).and_then(|x| x.as_str()).unwrap_or("").to_string();
            out.push(KnownFinding {
                property: g("property"),
                id: g("id"),
                status: g("status"),
                what: g("what"),
                signature_contains: g("signature_contains"),
            });
        }
    }
    out
}

// ------------------------------------------------------------------------------------------------
// Verdict
// ------------------------------------------------------------------------------------------------

pub struct Floor {
    pub key: &'static str,
    pub min: u64,
}

pub struct Report {
    pub rule: String,
    pub assumptions: Vec<String>,
    pub floors: Vec<Floor>,
    pub extra: serde_json::Map<String, Value>,
    pub exhaustive: bool,
}

impl Report {
    pub fn new(rule: &str) -> Self {
        Report {
            rule: rule.to_string(),
            assumptions: vec![],
            floors: vec![],
            extra: serde_json::Map::new(),
            exhaustive: false,
        }
    }
    pub fn floor(mut self, key: &'static str, min: u64) -> Self {
        self.floors.push(Floor { key, min });
        self
    }
    pub fn assume(mut self, s: &str) -> Self {
        self.assumptions.push(s.to_string());
        self
    }
    pub fn extra(mut self, k: &str, v: Value) -> Self {
        self.extra.insert(k.to_string(), v);
        self
    }
}

/// Writes the evidence file, the replay files and prints the verdict. Returns the exit code:
/// 0 held, 1 violated, 2 inconclusive.
pub fn finish(ctx: &Ctx, mut res: RunResult, report: Report) -> i32 {
    let wall = ctx.start.elapsed().as_secs_f64();
    let known = load_known_findings();
    let mut real: Vec<Violation> = vec![];
    let mut known_hit: BTreeMap<String, String> = BTreeMap::new();
    for v in res.violations.drain(..) {
        let mut matched = false;
        for k in &known {
            if k.status == "open"
                && k.property == ctx.prop
                && !k.signature_contains.is_empty()
                && v.signature.contains(&k.signature_contains)
            {
                known_hit.insert(k.id.clone(), k.what.clone());
                matched = true;
                break;
            }
        }
        if !matched {
            real.push(v);
        }
    }
    for (id, what) in &known_hit {
        println!("KNOWN-FINDING: property={} {} ({})", ctx.prop, what, id);
    }

    // Replay files.
    let mut replay_paths = vec![];
    let _ = std::fs::create_dir_all(format!("{}/replay", VERIF_DIR));
    for (i, v) in real.iter().enumerate() {
        let path = format!(
            "{}/replay/{}-{}-s{}-{}.json",
            VERIF_DIR,
            ctx.prop,
            ctx.tier.name(),
            ctx.seed,
            i
        );
        let doc = json!({
            "property": ctx.prop,
            "what": v.what,
            "signature": v.signature,
            "case": v.case,
        });
        let _ = std::fs::write(&path, serde_json::to_string_pretty(&doc).unwrap());
        replay_paths.push(path);
    }

    // Floors (only enforced on full-scale runs; sanitizer and debug-assertion slices run a
    // fraction of the workload and only contribute violations).
    let full_scale = std::env::var("VERIF_SCALE").map_or(true, |s| s.trim() == "100");
    let mut unmet = vec![];
    for f in report.floors.iter().filter(|_| full_scale) {
        let got = if f.key == "evaluations" {
            res.stats.evaluations
        } else if f.key == "distinct_nontrivial" {
            res.stats.distinct.len() as u64
        } else {
            res.stats.get(f.key)
        };
        if got < f.min {
            unmet.push(format!("{}={} < {}", f.key, got, f.min));
        }
    }

    // Evidence.
    let mut coverage = serde_json::Map::new();
    coverage.insert("evaluations".into(), json!(res.stats.evaluations));
    coverage.insert(
        "distinct_nontrivial".into(),
        json!(res.stats.distinct.len() as u64),
    );
    coverage.insert("rule".into(), json!(report.rule));
    let samples = if res.stats.samples.is_empty() {
        vec![json!("no sample recorded")]
    } else {
        res.stats.samples.clone()
    };
    coverage.insert("samples".into(), json!(samples));
    coverage.insert("skipped_cases".into(), json!(res.stats.skipped));
    coverage.insert("exhaustive".into(), json!(report.exhaustive));
    let mut observed = serde_json::Map::new();
    for (k, v) in &res.stats.counters {
        observed.insert(k.clone(), json!(v));
    }
    coverage.insert("observed_events".into(), Value::Object(observed));
    coverage.insert(
        "floors".into(),
        json!(report
            .floors
            .iter()
            .map(|f| json!({"event": f.key, "min": f.min}))
            .collect::<Vec<_>>()),
    );
    for (k, v) in report.extra.iter() {
        coverage.insert(k.clone(), v.clone());
    }
    if let Ok(san) = std::env::var("VERIF_SANITIZER_SUMMARY") {
        coverage.insert("sanitizer_stages".into(), json!(san));
    }
    if let Ok(sec) = std::env::var("VERIF_SECONDARY_SUMMARY") {
        coverage.insert("secondary_run".into(), json!(sec));
    }
    coverage.insert(
        "build_profile".into(),
        json!(std::env::var("VERIF_PROFILE").unwrap_or_else(|_| "release".into())),
    );
    let verdict = if !real.is_empty() {
        "violated"
    } else if !res.harness_errors.is_empty() || !unmet.is_empty() {
        "inconclusive"
    } else {
        "held on what was observed"
    };
    coverage.insert("verdict".into(), json!(verdict));
    if !known_hit.is_empty() {
        coverage.insert(
            "known_findings_reproduced".into(),
            json!(known_hit.keys().collect::<Vec<_>>()),
        );
    }
    let evidence = json!({
        "property_id": ctx.prop,
        "tier": ctx.tier.name(),
        "seed": ctx.seed,
        "level": ctx.level,
        "coverage": Value::Object(coverage),
        "assumptions": report.assumptions,
        "wall_s": wall,
        "violations": real.len(),
    });
    let _ = std::fs::create_dir_all(format!("{}/evidence", VERIF_DIR));
    let epath = std::env::var("VERIF_EVIDENCE_OUT")
        .unwrap_or_else(|_| format!("{}/evidence/{}.json", VERIF_DIR, ctx.prop));
    if let Err(e) = std::fs::write(&epath, serde_json::to_string_pretty(&evidence).unwrap()) {
        eprintln!("cannot write evidence {}: {}", epath, e);
    }

    println!(
        "[{} {} seed={}] evaluations={} distinct_nontrivial={} skipped={} wall={:.1}s",
        ctx.prop,
        ctx.tier.name(),
        ctx.seed,
        res.stats.evaluations,
        res.stats.distinct.len(),
        res.stats.skipped,
        wall
    );
    let mut line = String::new();
    for (k, v) in &res.stats.counters {
        line.push_str(&format!("{}={} ", k, v));
    }
    println!("  observed: {}", line.trim_end());

    if !real.is_empty() {
        for (v, p) in real.iter().zip(replay_paths.iter()) {
            println!("  refuted: {}", v.what);
            if let Some(m) = v.case.get("minimized") {
                println!(
                    "  minimized witness: patterns {} input {} -> {}",
                    m.get("patterns").map(|x| x.to_string()).unwrap_or_default(),
                    m.get("input").map(|x| x.to_string()).unwrap_or_default(),
                    m.get("what").and_then(|x| x.as_str()).unwrap_or("")
                );
            }
            println!("VIOLATION property={} replay={}", ctx.prop, p);
        }
        return 1;
    }
    if !res.harness_errors.is_empty() {
        for e in &res.harness_errors {
            println!("  harness error: {}", e);
        }
        println!(
            "INCONCLUSIVE property={} reason=harness error ({})",
            ctx.prop,
            res.harness_errors[0].replace('\n', " ")
        );
        return 2;
    }
    if !unmet.is_empty() {
        println!(
            "INCONCLUSIVE property={} reason=observation floors not reached: {}",
            ctx.prop,
            unmet.join(", ")
        );
        return 2;
    }
    println!("HELD property={} (on what was observed)", ctx.prop);
    0
}

// ------------------------------------------------------------------------------------------------
// Sharded execution in worker subprocesses (aborts, stack overflows and process-global state such
// as the scanner cache are observed per process)
// ------------------------------------------------------------------------------------------------

pub type CaseFn = fn(&mut Rng, u64, &mut Stats) -> CaseOutcome;

fn stats_to_json(s: &Stats) -> Value {
    json!({
        "evaluations": s.evaluations,
        "skipped": s.skipped,
        "counters": s.counters,
        "distinct": s.distinct.iter().collect::<Vec<_>>(),
        "samples": s.samples,
    })
}

fn stats_from_json(v: &Value) -> Stats {
    let mut s = Stats::default();
    s.evaluations = v["evaluations"].as_u64().unwrap_or(0);
    s.skipped = v["skipped"].as_u64().unwrap_or(0);
    if let Some(m) = v["counters"].as_object() {
        for (k, x) in m {
            s.counters.insert(k.clone(), x.as_u64().unwrap_or(0));
        }
    }
    if let Some(a) = v["distinct"].as_array() {
        for x in a {
            if let Some(h) = x.as_u64() {
                s.distinct.insert(h);
            }
        }
    }
    if let Some(a) = v["samples"].as_array() {
        s.samples = a.clone();
    }
    s
}

/// Body of a worker process: runs cases from..to of a stream single-threaded and reports on stdout.
pub fn worker_main(seed: u64, stream: u64, from: u64, to: u64, f: CaseFn) -> i32 {
    use std::io::Write;
    let out = std::io::stdout();
    let mut stats = Stats::default();
    let mut violations: Vec<Value> = vec![];
    let mut harness_errors: Vec<String> = vec![];
    for i in from..to {
        {
            let mut o = out.lock();
            let _ = writeln!(o, "B {}", i);
            let _ = o.flush();
        }
        let mut rng = Rng::for_case(seed, stream, i);
        let r = catch_unwind(AssertUnwindSafe(|| f(&mut rng, i, &mut stats)));
        match r {
            Ok(CaseOutcome::Ok) => stats.evaluations += 1,
            Ok(CaseOutcome::Skipped) => stats.skipped += 1,
            Ok(CaseOutcome::Violated(mut v)) => {
                stats.evaluations += 1;
                if let Value::Object(m) = &mut v.case {
                    m.insert("stream".into(), json!(stream));
                    m.insert("index".into(), json!(i));
                    m.insert("seed".into(), json!(seed));
                }
                violations.push(json!({"what": v.what, "signature": v.signature, "case": v.case}));
                if violations.len() >= MAX_VIOLATIONS_KEPT {
                    let mut o = out.lock();
                    let _ = writeln!(o, "E {}", i);
                    break;
                }
            }
            Err(_) => {
                let msg = LAST_PANIC.with(|p| p.borrow_mut().take()).unwrap_or_default();
                harness_errors.push(format!("harness panic in stream {} case {}: {}", stream, i, msg));
                break;
            }
        }
        let mut o = out.lock();
        let _ = writeln!(o, "E {}", i);
    }
    let mut o = out.lock();
    let _ = writeln!(
        o,
        "R {}",
        json!({"stats": stats_to_json(&stats), "violations": violations, "harness_errors": harness_errors})
    );
    let _ = o.flush();
    0
}

/// Runs cases 0..n of `stream` in worker processes of `per_process` cases each.
pub fn run_cases_subprocess(ctx: &Ctx, stream: u64, n_cases: u64, per_process: u64) -> RunResult {
    run_cases_subprocess_with_timeout(ctx, stream, n_cases, per_process, None)
}

/// What the tasks of a process are doing: (tasks blocked in a futex wait, all tasks).
fn futex_blocked_tasks(pid: u32) -> (usize, usize) {
    let mut blocked = 0;
    let mut total = 0;
    if let Ok(rd) = std::fs::read_dir(format!("/proc/{}/task", pid)) {
        for e in rd.flatten() {
            total += 1;
            let sys = std::fs::read_to_string(e.path().join("syscall")).unwrap_or_default();
            // 202 = futex, 449 = futex_waitv
            if sys.starts_with("202 ") || sys.starts_with("449 ") {
                blocked += 1;
            }
        }
    }
    (blocked, total)
}

/// As run_cases_subprocess; a worker that does not finish within `timeout_s` is inspected and
/// killed: if every one of its tasks is blocked in a futex wait this is reported as a deadlock
/// (violation), otherwise as a harness error (inconclusive).
pub fn run_cases_subprocess_with_timeout(
    ctx: &Ctx,
    stream: u64,
    n_cases: u64,
    per_process: u64,
    timeout_s: Option<u64>,
) -> RunResult {
    let exe = std::env::current_exe().expect("current exe");
    let mut ranges: Vec<(u64, u64)> = vec![];
    let mut a = 0;
    while a < n_cases {
        let b = (a + per_process).min(n_cases);
        ranges.push((a, b));
        a = b;
    }
    let next = AtomicUsize::new(0);
    let result = Mutex::new(RunResult::new());
    let stop = AtomicBool::new(false);
    std::thread::scope(|s| {
        for _ in 0..ctx.threads.max(1) {
            s.spawn(|| loop {
                if stop.load(Ordering::Relaxed) {
                    break;
                }
                let k = next.fetch_add(1, Ordering::Relaxed);
                if k >= ranges.len() {
                    break;
                }
                let (from, to) = ranges[k];
                let mut local = RunResult::new();
                let mut cmd = std::process::Command::new(&exe);
                cmd.arg("worker")
                    .arg(&ctx.prop)
                    .arg(stream.to_string())
                    .arg(from.to_string())
                    .arg(to.to_string())
                    .env("VERIF_SEED", ctx.seed.to_string())
                    .env("VERIF_TIER", ctx.tier.name())
                    .stdout(std::process::Stdio::piped())
                    .stderr(std::process::Stdio::piped());
                let output = match timeout_s {
                    None => cmd.output(),
                    Some(limit) => match cmd.spawn() {
                        Err(e) => Err(e),
                        Ok(mut child) => {
                            // drain the pipes in the background so that the child never blocks on them
                            let mut so = child.stdout.take().unwrap();
                            let mut se = child.stderr.take().unwrap();
                            let h1 = std::thread::spawn(move || {
                                let mut v = Vec::new();
                                let _ = std::io::Read::read_to_end(&mut so, &mut v);
                                v
                            });
                            let h2 = std::thread::spawn(move || {
                                let mut v = Vec::new();
                                let _ = std::io::Read::read_to_end(&mut se, &mut v);
                                v
                            });
                            let t0 = Instant::now();
                            let status = loop {
                                match child.try_wait() {
                                    Ok(Some(st)) => break Ok(st),
                                    Ok(None) => {
                                        if t0.elapsed().as_secs() >= limit {
                                            let (blocked, total) = futex_blocked_tasks(child.id());
                                            let _ = child.kill();
                                            let _ = child.wait();
                                            if total > 0 && blocked == total {
                                                local.violations.push(Violation::new(
                                                    format!(
                                                        "deadlock: worker {}..{} of stream {} completed nothing for {} s and all {} of its tasks are blocked in a futex wait",
                                                        from, to, stream, limit, total
                                                    ),
                                                    json!({"kind": "regen", "stream": stream, "from": from, "to": to, "seed": ctx.seed}),
                                                ));
                                            } else {
                                                local.harness_errors.push(format!(
                                                    "worker {}..{} of stream {} exceeded {} s ({} of {} tasks in futex wait): watchdog, inconclusive",
                                                    from, to, stream, limit, blocked, total
                                                ));
                                            }
                                            break Err(std::io::Error::new(std::io::ErrorKind::TimedOut, "watchdog"));
                                        }
                                        std::thread::sleep(std::time::Duration::from_millis(50));
                                    }
                                    Err(e) => break Err(e),
                                }
                            };
                            let stdout = h1.join().unwrap_or_default();
                            let stderr = h2.join().unwrap_or_default();
                            status.map(|status| std::process::Output { status, stdout, stderr })
                        }
                    },
                };
                match output {
                    Err(e) if e.kind() == std::io::ErrorKind::TimedOut => {}
                    Err(e) => local.harness_errors.push(format!("cannot spawn worker: {}", e)),
                    Ok(out) => {
                        let text = String::from_utf8_lossy(&out.stdout);
                        let mut open: Option<u64> = None;
                        let mut got_result = false;
                        for line in text.lines() {
                            if let Some(r) = line.strip_prefix("B ") {
                                open = r.trim().parse().ok();
                            } else if line.starts_with("E ") {
                                open = None;
                            } else if let Some(r) = line.strip_prefix("R ") {
                                if let Ok(v) = serde_json::from_str::<Value>(r) {
                                    got_result = true;
                                    local.stats = stats_from_json(&v["stats"]);
                                    if let Some(a) = v["violations"].as_array() {
                                        for x in a {
                                            local.violations.push(Violation {
                                                what: x["what"].as_str().unwrap_or("").to_string(),
                                                signature: x["signature"].as_str().unwrap_or("").to_string(),
                                                case: x["case"].clone(),
                                            });
                                        }
                                    }
                                    if let Some(a) = v["harness_errors"].as_array() {
                                        for x in a {
                                            local.harness_errors.push(x.as_str().unwrap_or("").to_string());
                                        }
                                    }
                                }
                            }
                        }
                        if !got_result {
                            use std::os::unix::process::ExitStatusExt;
                            let how = match (out.status.code(), out.status.signal()) {
                                (_, Some(sig)) => format!("killed by signal {}", sig),
                                (Some(c), _) => format!("exited with status {}", c),
                                _ => "ended abnormally".to_string(),
                            };
                            let err = String::from_utf8_lossy(&out.stderr);
                            let tail: String = err.lines().rev().take(3).collect::<Vec<_>>().join(" | ");
                            match open {
                                Some(i) => local.violations.push(Violation::new(
                                    format!("the process {} while case {} of stream {} was running ({})", how, i, stream, tail),
                                    json!({"kind": "regen", "stream": stream, "index": i, "seed": ctx.seed}),
                                )),
                                None => local.harness_errors.push(format!(
                                    "worker {}..{} of stream {} {} outside a case ({})",
                                    from, to, stream, how, tail
                                )),
                            }
                        }
                    }
                }
                // a deadlock costs a full watchdog period per worker: one is enough
                let deadlock = local.violations.iter().any(|v| v.what.starts_with("deadlock:"));
                let mut all = result.lock().unwrap();
                all.merge(local);
                if deadlock || all.violations.len() >= MAX_VIOLATIONS_KEPT || !all.harness_errors.is_empty() {
                    stop.store(true, Ordering::Relaxed);
                }
                drop(all);
            });
        }
    });
    result.into_inner().unwrap()
}
