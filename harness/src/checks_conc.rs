//! C13 (cache transparency) and C14 (thread safety).
use crate::cfg::*;
use crate::gen::*;
use crate::hist::gen_multi_mode;
use crate::ir::*;
use crate::monitor::*;
use crate::refsem::RefPattern;
use crate::rng::Rng;
use crate::wf::*;
use scnr::ScannerModeSwitcher;
use serde_json::{json, Value};
use std::collections::HashSet;
use std::sync::atomic::{AtomicBool, Ordering};
use std::sync::Mutex;

// ------------------------------------------------------------------------------------------------
// C13
// ------------------------------------------------------------------------------------------------

/// One mutation of a configuration; returns the kind applied.
fn mutate(cfg: &ScannerCfg, rng: &mut Rng, p: &GenParams) -> Option<(ScannerCfg, &'static str)> {
    let mut c = cfg.clone();
    let mi = rng.below(c.modes.len());
    let np = c.modes[mi].pats.len();
    match rng.below(12) {
        10 => {
            // the number of modes: the other configuration is a strict prefix of this one (or
            // the other way round)
            let last = c.modes.len() - 1;
            let targeted = c.modes.iter().any(|m| m.trans.iter().any(|(_, t)| *t == last));
            if c.modes.len() >= 2 && !targeted && rng.chance(1, 2) {
                c.modes.pop();
            } else {
                let mut m = c.modes[mi].clone();
                m.name.push_str("_extra");
                c.modes.push(m);
            }
            Some((c, "mode_count"))
        }
        11 => {
            // the number of patterns of a mode (prefix relation between the pattern lists)
            if np >= 2 && rng.chance(1, 2) {
                c.modes[mi].pats.pop();
            } else {
                let used: Vec<usize> = c.modes[mi].pats.iter().map(|p| p.tt).collect();
                let mut t = rng.below(50);
                while used.contains(&t) {
                    t += 1;
                }
                c.modes[mi].pats.push(RefPattern { re: gen_non_nullable(rng, p), tt: t, la: None });
            }
            Some((c, "pattern_count"))
        }
        0 => {
            // a token type
            let k = rng.below(np);
            let used: Vec<usize> = c.modes[mi].pats.iter().map(|p| p.tt).collect();
            let mut t = rng.below(50);
            while used.contains(&t) {
                t += 1;
            }
            c.modes[mi].pats[k].tt = t;
            Some((c, "token_type"))
        }
        1 => {
            if np < 2 {
                return None;
            }
            let a = rng.below(np);
            let mut b = rng.below(np);
            if a == b {
                b = (a + 1) % np;
            }
            c.modes[mi].pats.swap(a, b);
            Some((c, "pattern_order"))
        }
        2 => {
            let k = rng.below(np);
            if c.modes[mi].pats[k].la.is_some() {
                c.modes[mi].pats[k].la = None;
            } else {
                c.modes[mi].pats[k].la = Some((rng.chance(1, 2), gen_non_nullable(rng, p)));
            }
            Some((c, "lookahead_presence"))
        }
        3 => {
            let k = (0..np).find(|k| c.modes[mi].pats[*k].la.is_some())?;
            let la = c.modes[mi].pats[k].la.as_mut().unwrap();
            la.0 = !la.0;
            Some((c, "lookahead_polarity"))
        }
        4 => {
            let k = (0..np).find(|k| c.modes[mi].pats[*k].la.is_some())?;
            let old = c.modes[mi].pats[k].la.clone().unwrap();
            let mut new = gen_non_nullable(rng, p);
            if new == old.1 {
                new = Re::Cat(vec![new, Re::Lit('a', LitStyle::Verbatim)]);
            }
            c.modes[mi].pats[k].la = Some((old.0, new));
            Some((c, "lookahead_pattern"))
        }
        5 => {
            // one transition: change target, add or remove
            let n_modes = c.modes.len();
            let tr = &mut c.modes[mi].trans;
            if !tr.is_empty() && rng.chance(1, 2) {
                let k = rng.below(tr.len());
                if n_modes > 1 && rng.chance(1, 2) {
                    tr[k].1 = (tr[k].1 + 1) % n_modes;
                } else {
                    tr.remove(k);
                }
            } else {
                let mut t = rng.below(60);
                while tr.iter().any(|(x, _)| *x == t) {
                    t += 1;
                }
                tr.push((t, rng.below(n_modes)));
                tr.sort();
            }
            Some((c, "transition"))
        }
        6 => {
            c.modes[mi].name.push('x');
            Some((c, "mode_name"))
        }
        7 => {
            if c.modes.len() < 2 {
                return None;
            }
            let a = rng.below(c.modes.len());
            let b = (a + 1) % c.modes.len();
            if c.modes[a] == c.modes[b] {
                return None;
            }
            c.modes.swap(a, b);
            Some((c, "mode_order"))
        }
        8 => {
            // a pattern text
            let k = rng.below(np);
            let old = c.modes[mi].pats[k].re.clone();
            c.modes[mi].pats[k].re = Re::Cat(vec![old, Re::Lit('b', LitStyle::Verbatim)]);
            Some((c, "pattern_text"))
        }
        _ => {
            let mut q = gen_multi_mode(rng, p, 20, 3);
            q.modes[0].name.push_str("_unrelated");
            Some((q, "unrelated"))
        }
    }
}

/// A failing configuration derived from `cfg`.
fn make_failing(cfg: &ScannerCfg, rng: &mut Rng) -> (ScannerCfg, &'static str) {
    let mut c = cfg.clone();
    let mi = rng.below(c.modes.len());
    let np = c.modes[mi].pats.len();
    let bad = Re::Raw(["(", "a*?", "\\b", "(?i)a", "\\p{NoSuchProperty}", "[a"][rng.below(6)].to_string());
    let k = rng.below(np);
    match rng.below(3) {
        0 => {
            c.modes[mi].pats[0].re = bad;
            (c, "failing_first_pattern")
        }
        1 => {
            c.modes[mi].pats[k].re = bad;
            (c, "failing_some_pattern")
        }
        _ => {
            c.modes[mi].pats[k].la = Some((rng.chance(1, 2), bad));
            (c, "failing_lookahead")
        }
    }
}

fn probe_streams(s: &scnr::Scanner, n_modes: usize, inputs: &[String]) -> Result<Vec<Vec<Tok>>, String> {
    let mut out = Vec::new();
    for input in inputs {
        for m in 0..n_modes {
            out.push(scan_all(s, input, 0, m)?);
        }
    }
    Ok(out)
}

pub fn c13_case(rng: &mut Rng, _i: u64, st: &mut Stats) -> CaseOutcome {
    let mut p = GenParams::varied(rng);
    p.max_nodes = 7;
    let mut base = gen_multi_mode(rng, &p, 30, 3);
    // larger modes now and then (up to 9 patterns)
    if rng.chance(1, 3) {
        let extra = rng.range(3, 5);
        let mut next_tt = base.modes[0].pats.iter().map(|p| p.tt).max().unwrap_or(0).min(1_000_000) + 1;
        for _ in 0..extra {
            base.modes[0].pats.push(RefPattern { re: gen_re(rng, &p), tt: next_tt, la: None });
            next_tt += 1;
        }
        st.count("families_with_large_modes");
    }
    if !base.all_res().iter().all(|r| print_parse_roundtrip_ok(r)) {
        return CaseOutcome::Skipped;
    }
    // the family
    let mut family: Vec<(ScannerCfg, &'static str)> = vec![(base.clone(), "base")];
    for _ in 0..rng.range(2, 6) {
        let from = family[rng.below(family.len())].0.clone();
        if let Some((c, kind)) = mutate(&from, rng, &p) {
            if c.all_res().iter().all(|r| print_parse_roundtrip_ok(r)) {
                family.push((c, kind));
            }
        }
    }
    // delimiter shift: two members that differ only in WHERE a delimiter-like character sits between
    // two adjacent string fields (the end of one pattern / lookahead / mode name or the start of the
    // next pattern): "a\0","b" against "a","\0b". Any key that joins the strings of a
    // configuration with that character cannot tell them apart.
    if rng.chance(1, 2) {
        let d = *rng.pick(&['\0', '\0', '\0', ',', ';', '\n', ' ', '\t', ':', '#', '=']);
        let mi = rng.below(base.modes.len());
        let np = base.modes[mi].pats.len();
        let dl = |c: char| Re::Lit(c, LitStyle::Verbatim);
        let mut a = base.clone();
        let mut b = base.clone();
        let mut made = false;
        if np >= 2 {
            // prefer a pattern with a lookahead (then two string fields are really adjacent)
            let with_la: Vec<usize> = (0..np - 1).filter(|k| base.modes[mi].pats[*k].la.is_some()).collect();
            let k = if !with_la.is_empty() && rng.chance(3, 4) { *rng.pick(&with_la) } else { rng.below(np - 1) };
            if base.modes[mi].pats[k].la.is_some() {
                st.count("delimiter_shift_between_a_lookahead_and_the_next_pattern");
            }
            // both members use the same texts for the two fields (wrapped in a group so that the
            // added character cannot change their structure); only the place of the character differs
            let grp = |r: Re| Re::Group(GroupKind::NonCapture, Box::new(r));
            let y = grp(base.modes[mi].pats[k + 1].re.clone());
            if let Some((pos, la)) = base.modes[mi].pats[k].la.clone() {
                // the lookahead of pattern k is directly followed by the text of pattern k + 1
                let x = grp(la);
                a.modes[mi].pats[k].la = Some((pos, Re::Cat(vec![x.clone(), dl(d)])));
                b.modes[mi].pats[k].la = Some((pos, x));
            } else {
                let x = grp(base.modes[mi].pats[k].re.clone());
                a.modes[mi].pats[k].re = Re::Cat(vec![x.clone(), dl(d)]);
                b.modes[mi].pats[k].re = x;
            }
            a.modes[mi].pats[k + 1].re = y.clone();
            b.modes[mi].pats[k + 1].re = Re::Cat(vec![dl(d), y]);
            made = true;
        } else if d != '|' {
            // mode name against the first pattern
            a.modes[mi].name.push(d);
            let y = Re::Group(GroupKind::NonCapture, Box::new(base.modes[mi].pats[0].re.clone()));
            a.modes[mi].pats[0].re = y.clone();
            b.modes[mi].pats[0].re = Re::Cat(vec![dl(d), y]);
            made = true;
        }
        if made && d != '|' {
            family.push((a, "delimiter_shift"));
            family.push((b, "delimiter_shift"));
            st.count("families_with_a_delimiter_shift_pair");
        }
    }
    for _ in 0..rng.range(1, 2) {
        let from = family[rng.below(family.len())].0.clone();
        let (c, kind) = make_failing(&from, rng);
        family.push((c, kind));
    }
    let res_refs = base.all_res();
    let inputs: Vec<String> = (0..2).map(|_| gen_input(rng, &res_refs, &p.letters, 24)).collect();
    let seq_len = if cfg!(miri) { rng.range(4, 7) } else { rng.range(5, 40) };
    let seq: Vec<usize> = (0..seq_len).map(|_| rng.below(family.len())).collect();

    #[cfg(feature = "hooks")]
    {
        scnr::verif_hooks::cache_log_arm(true);
        scnr::verif_hooks::cache_log_take();
    }
    // the keys of this process's cache are not known to this case (earlier cases of the same
    // worker process may have built equal configurations): the model is kept per process
    thread_local! {
        static MODEL: std::cell::RefCell<HashSet<u64>> = std::cell::RefCell::new(HashSet::new());
        static CASES_IN_PROCESS: std::cell::Cell<u64> = const { std::cell::Cell::new(0) };
    }
    let nth = CASES_IN_PROCESS.with(|c| {
        c.set(c.get() + 1);
        c.get()
    });
    if nth == 1 {
        st.count("sequences_in_fresh_process");
    } else {
        st.count("sequences_in_long_lived_process");
    }
    let mut built_kinds: Vec<&'static str> = Vec::new();
    for (step, &fi) in seq.iter().enumerate() {
        let (cfg, kind) = &family[fi];
        let case = || json!({"kind": "c13", "family": family.iter().map(|(c, k)| json!({"kind": k, "cfg": c, "patterns": c.describe()})).collect::<Vec<_>>(), "sequence": seq, "failing_step": step, "inputs": inputs});
        let key = hash_of(cfg);
        // one step in eight hands the modes over through CLONES of one builder that stays alive:
        // the clone is built once with all modes but the last (result ignored), then a second clone
        // gets the last mode added and is built - builders are values, what one clone did must not
        // show in another
        let via_clones = cfg.modes.len() >= 2 && !cfg!(miri) && rng.chance(1, 8);
        let cached = if via_clones {
            st.count("builds_through_clones_of_a_live_builder");
            let modes = cfg.to_modes();
            let k = modes.len() - 1;
            let mut prefix = cfg.clone();
            prefix.modes.truncate(k);
            let pkey = hash_of(&prefix);
            sut(|| {
                let base = scnr::ScannerBuilder::new().add_scanner_modes(&modes[..k]);
                if base.clone().build().is_ok() {
                    MODEL.with(|m| {
                        m.borrow_mut().insert(pkey);
                    });
                }
                let full = base.clone().add_scanner_mode(modes[k].clone()).build().map_err(|e| e.to_string());
                drop(base);
                full
            })
        } else {
            sut(|| cfg.build_cached())
        };
        #[cfg(feature = "hooks")]
        if via_clones {
            // the event shape of such a step is not the model's single build: drop its events
            scnr::verif_hooks::cache_log_take();
        }
        let uncached = sut(|| cfg.build_uncached());
        let (cached, uncached) = match (cached, uncached) {
            (Err(p), _) => return CaseOutcome::Violated(Violation::new(format!("build() panicked at step {} ({}): {}", step, kind, p), case())),
            (_, Err(p)) => return CaseOutcome::Violated(Violation::new(format!("build_uncached() panicked at step {} ({}): {}", step, kind, p), case())),
            (Ok(a), Ok(b)) => (a, b),
        };
        st.count("builds");
        #[cfg(feature = "hooks")]
        {
            let ev = scnr::verif_hooks::cache_log_take();
            let in_model = MODEL.with(|m| m.borrow().contains(&key));
            for e in &ev {
                if e.hit {
                    st.count("h3_hits");
                } else {
                    st.count("h3_misses");
                }
            }
            let shape: Vec<bool> = ev.iter().map(|e| e.hit).collect();
            let expected: Vec<bool> = if in_model {
                vec![true]
            } else if uncached.is_ok() {
                vec![false, true]
            } else {
                vec![false]
            };
            if shape != expected {
                st.count("h3_event_shape_differs_from_model");
            }
            if uncached.is_err() {
                if let Some(e) = ev.last() {
                    let model_len = MODEL.with(|m| m.borrow().len());
                    if e.entries != model_len {
                        st.count("h3_entry_count_differs_from_model");
                        if std::env::var("VERIF_DEBUG_H3").is_ok() {
                            eprintln!("H3DEBUG entries={} model={} case_in_process={}", e.entries, model_len, nth);
                        }
                    }
                }
            }
        }
        match (&cached, &uncached) {
            (Ok(_), Err(e)) => {
                return CaseOutcome::Violated(Violation::new(
                    format!("step {} ({}): build() returns a scanner but build_uncached() fails: {}", step, kind, e),
                    case(),
                ))
            }
            (Err(e), Ok(_)) => {
                return CaseOutcome::Violated(Violation::new(
                    format!("step {} ({}): build() fails ({}) but build_uncached() succeeds; kinds built before: {:?}", step, kind, e, built_kinds),
                    case(),
                ))
            }
            (Err(_), Err(_)) => {
                st.count("failing_builds");
                if built_kinds.iter().any(|k| !k.starts_with("failing")) {
                    st.count("failing_build_after_successful_ones");
                }
            }
            (Ok(c), Ok(u)) => {
                if built_kinds.iter().any(|k| k.starts_with("failing")) {
                    st.count("successful_build_after_failing_one");
                }
                MODEL.with(|m| m.borrow_mut().insert(key));
                st.count(&format!("built_{}", kind));
                if c.current_mode() != 0 {
                    return CaseOutcome::Violated(Violation::new(
                        format!("step {} ({}): the scanner returned by build() is in mode {}", step, kind, c.current_mode()),
                        case(),
                    ));
                }
                // observable behaviour
                let sc = probe_streams(c, cfg.modes.len(), &inputs);
                let su = probe_streams(u, cfg.modes.len(), &inputs);
                match (sc, su) {
                    (Ok(a), Ok(b)) => {
                        if a != b {
                            return CaseOutcome::Violated(Violation::new(
                                format!("step {} ({}): token streams of build() and build_uncached() differ: {:?} vs {:?}; kinds built before: {:?}", step, kind, a, b, built_kinds),
                                case(),
                            ));
                        }
                    }
                    (Err(e), _) | (_, Err(e)) => {
                        return CaseOutcome::Violated(Violation::new(format!("step {} ({}): {}", step, kind, e), case()))
                    }
                }
                for i in 0..cfg.modes.len() + 1 {
                    if c.mode_name(i) != u.mode_name(i) {
                        return CaseOutcome::Violated(Violation::new(
                            format!("step {} ({}): mode_name({}) is {:?} from build() and {:?} from build_uncached()", step, kind, i, c.mode_name(i), u.mode_name(i)),
                            case(),
                        ));
                    }
                }
                #[cfg(feature = "hooks")]
                if !cfg!(miri) {
                    if let Err(e) = crate::lang::scanners_equivalent(c, u) {
                        return CaseOutcome::Violated(Violation::new(
                            format!("step {} ({}): the scanner returned by build() differs from build_uncached(): {}; kinds built before: {:?}", step, kind, e, built_kinds),
                            case(),
                        ));
                    }
                    st.count("automata_compared");
                }
            }
        }
        built_kinds.push(kind);
    }
    // Fillers: a long-running process builds many unrelated scanners; eight cheap distinct
    // configurations per case go through the cache so that it holds hundreds of entries.
    thread_local! {
        static FILLER_NO: std::cell::Cell<u64> = const { std::cell::Cell::new(0) };
    }
    for _ in 0..8 {
        let k = FILLER_NO.with(|c| {
            c.set(c.get() + 1);
            c.get()
        });
        let filler = ScannerCfg {
            modes: vec![ModeCfg {
                name: format!("FILLER{}", k),
                pats: vec![RefPattern { re: Re::Lit('a', LitStyle::Verbatim), tt: (k % 7) as usize, la: None }],
                trans: vec![],
            }],
        };
        if let Ok(Ok(_)) = sut(|| filler.build_cached()) {
            MODEL.with(|m| m.borrow_mut().insert(hash_of(&filler)));
            st.count("filler_configurations_cached");
        }
        #[cfg(feature = "hooks")]
        scnr::verif_hooks::cache_log_take();
    }
    // Long-range revisits: configurations built much earlier in this process are built again
    // (a cache may be bounded; an evicted or recycled entry must not change what build() returns).
    thread_local! {
        static ARCHIVE: std::cell::RefCell<Vec<ScannerCfg>> = const { std::cell::RefCell::new(Vec::new()) };
    }
    let archived: Vec<ScannerCfg> = ARCHIVE.with(|a| {
        let a = a.borrow();
        if a.is_empty() {
            return vec![];
        }
        (0..4).map(|_| a[rng.below(a.len())].clone()).collect()
    });
    let distinct_before = MODEL.with(|m| m.borrow().len());
    for old in &archived {
        let cached = sut(|| old.build_cached());
        let uncached = sut(|| old.build_uncached());
        st.count("long_range_revisits");
        if distinct_before > 256 {
            st.count("long_range_revisits_after_more_than_256_distinct_configurations");
        }
        let case = || json!({"kind": "c13", "revisited": old, "patterns": old.describe(), "distinct_configurations_built_in_this_process": distinct_before});
        match (cached, uncached) {
            (Ok(Ok(c)), Ok(Ok(u))) => {
                MODEL.with(|m| m.borrow_mut().insert(hash_of(old)));
                let sc = probe_streams(&c, old.modes.len(), &inputs);
                let su = probe_streams(&u, old.modes.len(), &inputs);
                if let (Ok(a), Ok(b)) = (&sc, &su) {
                    if a != b {
                        return CaseOutcome::Violated(Violation::new(
                            format!(
                                "a configuration built earlier in this process is built again after {} distinct configurations: token streams of build() and build_uncached() differ: {:?} vs {:?}",
                                distinct_before, a, b
                            ),
                            case(),
                        ));
                    }
                }
                #[cfg(feature = "hooks")]
                if !cfg!(miri) {
                    if let Err(e) = crate::lang::scanners_equivalent(&c, &u) {
                        return CaseOutcome::Violated(Violation::new(
                            format!("a configuration built earlier in this process is built again after {} distinct configurations: build() differs from build_uncached(): {}", distinct_before, e),
                            case(),
                        ));
                    }
                }
            }
            (Ok(Err(_)), Ok(Err(_))) => {}
            (Ok(a), Ok(b)) => {
                return CaseOutcome::Violated(Violation::new(
                    format!("revisit after {} distinct configurations: build() ok = {}, build_uncached() ok = {}", distinct_before, a.is_ok(), b.is_ok()),
                    case(),
                ))
            }
            (Err(p), _) | (_, Err(p)) => return CaseOutcome::Violated(Violation::new(format!("panic in a revisit: {}", p), case())),
        }
    }
    #[cfg(feature = "hooks")]
    scnr::verif_hooks::cache_log_take();
    ARCHIVE.with(|a| {
        let mut a = a.borrow_mut();
        for (c, k) in &family {
            if !k.starts_with("failing") && a.len() < 5000 {
                a.push(c.clone());
            }
        }
    });
    st.nontrivial(hash_of(&(&family.iter().map(|f| &f.0).collect::<Vec<_>>(), &seq)));
    st.sample(json!({"family_kinds": family.iter().map(|f| f.1).collect::<Vec<_>>(), "sequence": seq}));
    CaseOutcome::Ok
}

pub fn c13(tier: Tier) -> i32 {
    let ctx = Ctx::new("C13", tier, "exploration");
    let n = ctx.scale(640, 40_000);
    let per = if tier == Tier::Quick { 10 } else { 50 };
    let mut res = run_cases_subprocess(&ctx, 1, n, per);
    // stream 2: the same cases in a few long-lived processes (hundreds of distinct configurations
    // per process, with long-range revisits)
    let n2 = ctx.scale(960, 16_000);
    let per2 = if tier == Tier::Quick { 60 } else { 1_000 };
    res.merge(run_cases_subprocess(&ctx, 2, n2, per2));
    let mut report = Report::new(
        "build sequences of 5-40 builds over a family of near-identical configurations: a base multi-mode configuration and variants differing in exactly one of token type / pattern order / lookahead presence / lookahead polarity / lookahead pattern / one transition / a mode name / mode order / a pattern text / the number of modes (one mode list a strict prefix of the other) / the number of patterns of a mode / the position of a delimiter-like character (NUL , ; newline blank tab : #) between two adjacent string fields, an unrelated configuration, and failing configurations (syntax error or unsupported construct in the first, a later or a lookahead pattern), drawn with repetition so that every kind is built before and after its twins. Every build() result is compared with build_uncached() of the same configuration: Ok/Err agreement, mode 0, mode names, token streams on probe inputs in every mode, and the compiled automata (hook dump: names, transitions, priority order, language equivalence over all strings). Sequences run single-threaded in worker subprocesses (stream 1: 10 sequences per process, so many start in a fresh process; stream 2: 60 (quick) or 1000 (thorough) sequences per process, i.e. several hundred distinct configurations in one cache, with configurations built much earlier revisited at random); hook H3 counts the hits and misses actually taken. Distinct by hash of (family, sequence).",
    )
    .floor("builds", 8_000)

    .floor("failing_builds", 500)
    .floor("successful_build_after_failing_one", 500)
    .floor("sequences_in_fresh_process", 30)
    .floor("sequences_in_long_lived_process", 300)
    .floor("long_range_revisits_after_more_than_256_distinct_configurations", 200);
    if cfg!(feature = "hooks") && std::env::var("VERIF_HOOKS").map_or(true, |v| v != "0") {
        report = report.floor("h3_hits", 2_000).floor("h3_misses", 2_000);
    }
    for k in ["token_type", "pattern_order", "lookahead_presence", "lookahead_polarity", "lookahead_pattern", "transition", "mode_name", "mode_order", "pattern_text", "mode_count", "pattern_count", "delimiter_shift"] {
        let key: &'static str = Box::leak(format!("built_{}", k).into_boxed_str());
        report = report.floor(key, 100);
    }
    finish(&ctx, res, report)
}

// ------------------------------------------------------------------------------------------------
// C14
// ------------------------------------------------------------------------------------------------

#[derive(Clone)]
enum Expect {
    /// the build fails; the error text is part of what the caller observes
    Fails(String),
    Streams(Vec<Vec<Tok>>),
}

#[derive(Clone)]
struct Key {
    cfg: ScannerCfg,
    expect: Expect,
}

fn expectation(cfg: &ScannerCfg, inputs: &[String]) -> Result<Expect, String> {
    match sut(|| cfg.build_uncached()) {
        Err(p) => Err(format!("sequential build panicked: {}", p)),
        Ok(Err(e)) => Ok(Expect::Fails(e)),
        Ok(Ok(s)) => Ok(Expect::Streams(probe_streams(&s, cfg.modes.len(), inputs)?)),
    }
}

pub fn c14_round(rng: &mut Rng, round: u64, st: &mut Stats, progress: &std::sync::atomic::AtomicU64) -> CaseOutcome {
    use std::sync::atomic::Ordering;
    let mut p = GenParams::default();
    p.max_nodes = 7;
    // keys: hot (few, shared by all threads), cold (unique), failing
    let mut keys: Vec<Key> = Vec::new();
    let mut inputs: Vec<String> = Vec::new();
    let n_hot = if cfg!(miri) { 1 } else { rng.range(1, 3) };
    let n_cold = if cfg!(miri) { 1 } else { rng.range(2, 8) };
    let n_fail = if cfg!(miri) { 1 } else { rng.range(1, 3) };
    let mut cfgs: Vec<ScannerCfg> = Vec::new();
    for k in 0..(n_hot + n_cold) {
        let mut c = gen_multi_mode(rng, &p, 20, 2);
        if !c.all_res().iter().all(|r| print_parse_roundtrip_ok(r)) {
            c = ScannerCfg::single(vec![RefPattern { re: Re::Lit('a', LitStyle::Verbatim), tt: 0, la: None }]);
        }
        // unique over the whole process
        c.modes[0].name = format!("R{}K{}", round, k);
        cfgs.push(c);
    }
    for k in 0..n_fail {
        let (mut c, _) = make_failing(&cfgs[rng.below(cfgs.len())], rng);
        c.modes[0].name = format!("R{}F{}", round, k);
        cfgs.push(c);
    }
    {
        let refs = cfgs[0].all_res();
        for _ in 0..2 {
            inputs.push(gen_input(rng, &refs, &p.letters, 24));
        }
    }
    for c in &cfgs {
        match expectation(c, &inputs) {
            Ok(e) => keys.push(Key { cfg: c.clone(), expect: e }),
            Err(e) => return CaseOutcome::Violated(Violation::new(e, json!({"kind": "c14", "cfg": c}))),
        }
    }
    let n_threads = if cfg!(miri) { 3 } else { *rng.pick(&[2usize, 3, 4, 8, 16, 2, 3, 4, 8, 16, 33]) };
    let ops_per_thread = if cfg!(miri) { rng.range(3, 5) } else { rng.range(10, 40) };
    // a shared scanner built beforehand from the first key
    let shared: Option<scnr::Scanner> = cfgs[0].build_uncached().ok();
    let shared_expect = keys[0].expect.clone();
    // per-thread plans
    let plans: Vec<Vec<(u8, usize, u8)>> = (0..n_threads)
        .map(|_| {
            (0..ops_per_thread)
                .map(|_| {
                    let r = rng.below(100);
                    let op = if r < 45 { 0u8 } else if r < 60 { 1 } else if r < 85 { 2 } else { 3 };
                    let key = if rng.chance(1, 2) { rng.below(n_hot) } else { rng.below(keys.len()) };
                    (op, key, rng.below(4) as u8)
                })
                .collect()
        })
        .collect();
    // First-use bursts: in half of the rounds all threads meet at a spin barrier and then use, for
    // the very first time and at the same moment, a Scanner nobody has touched before (several
    // fresh scanners per round), so that first uses of one Scanner really collide.
    let bursts: Vec<scnr::Scanner> = if rng.chance(1, 2) && !cfg!(miri) {
        st.count("rounds_with_simultaneous_first_use_of_a_fresh_scanner");
        (0..6).filter_map(|_| cfgs[0].build_uncached().ok()).collect()
    } else {
        Vec::new()
    };
    let burst_arrivals = std::sync::atomic::AtomicUsize::new(0);
    #[cfg(feature = "hooks")]
    {
        scnr::verif_hooks::cache_log_arm(true);
        scnr::verif_hooks::cache_log_take();
    }
    let barrier = std::sync::Barrier::new(n_threads);
    let failures: std::sync::Mutex<Vec<String>> = std::sync::Mutex::new(Vec::new());
    let counters: std::sync::Mutex<Stats> = std::sync::Mutex::new(Stats::default());
    std::thread::scope(|s| {
        for (ti, plan) in plans.iter().enumerate() {
            let keys = &keys;
            let inputs = &inputs;
            let barrier = &barrier;
            let failures = &failures;
            let counters = &counters;
            let shared = &shared;
            let shared_expect = &shared_expect;
            let bursts = &bursts;
            let burst_arrivals = &burst_arrivals;
            s.spawn(move || {
                let mut local = Stats::default();
                barrier.wait();
                let mut burst_failed = false;
                for (bi, fresh) in bursts.iter().enumerate() {
                    // spin barrier: everybody leaves it within a few nanoseconds (a thread that has
                    // seen a failure keeps taking part in the barrier, it only stops probing)
                    burst_arrivals.fetch_add(1, Ordering::SeqCst);
                    let target = (bi + 1) * n_threads;
                    let mut spins = 0u32;
                    while burst_arrivals.load(Ordering::SeqCst) < target {
                        spins += 1;
                        if spins > 20_000 {
                            std::thread::yield_now();
                        } else {
                            std::hint::spin_loop();
                        }
                    }
                    if burst_failed {
                        continue;
                    }
                    if let Expect::Streams(exp) = shared_expect {
                        local.count("simultaneous_first_uses");
                        match probe_streams(fresh, keys[0].cfg.modes.len(), inputs) {
                            Err(e) => {
                                failures.lock().unwrap().push(format!("thread {}: first use of a fresh scanner: {}", ti, e));
                                burst_failed = true;
                            }
                            Ok(got) if &got != exp => {
                                failures.lock().unwrap().push(format!(
                                    "thread {}: first use of a fresh scanner simultaneously with {} other threads yields {:?}, sequentially {:?}",
                                    ti, n_threads - 1, got, exp
                                ));
                                burst_failed = true;
                            }
                            Ok(_) => {}
                        }
                    }
                }
                for (op, ki, delay) in plan {
                    // injected delays between operations (never inside the library's lock)
                    match delay {
                        0 => std::thread::yield_now(),
                        1 => std::thread::sleep(std::time::Duration::from_micros(50)),
                        _ => {}
                    }
                    let key = &keys[*ki];
                    let r: Result<(), String> = match op {
                        0 | 1 => {
                            // build through the shared cache (0) or privately (1) and scan
                            let cached = *op == 0;
                            let b = sut(|| if cached { key.cfg.build_cached() } else { key.cfg.build_uncached() });
                            match (b, &key.expect) {
                                (Err(p), _) => Err(format!("thread {}: build panicked: {}", ti, p)),
                                (Ok(Err(e)), Expect::Fails(seq)) => {
                                    local.count("failing_builds_under_contention");
                                    if &e != seq {
                                        Err(format!("thread {}: {} fails with {:?}, the same call made sequentially fails with {:?}", ti, if cached { "build()" } else { "build_uncached()" }, e, seq))
                                    } else {
                                        Ok(())
                                    }
                                }
                                (Ok(Err(e)), Expect::Streams(_)) => Err(format!("thread {}: {} failed ({}) but the same call succeeds sequentially", ti, if cached { "build()" } else { "build_uncached()" }, e)),
                                (Ok(Ok(_)), Expect::Fails(_)) => Err(format!("thread {}: {} succeeded but the same call fails sequentially", ti, if cached { "build()" } else { "build_uncached()" })),
                                (Ok(Ok(sc)), Expect::Streams(exp)) => {
                                    local.count(if cached { "cached_builds" } else { "private_builds" });
                                    match probe_streams(&sc, key.cfg.modes.len(), inputs) {
                                        Err(e) => Err(format!("thread {}: {}", ti, e)),
                                        Ok(got) if &got != exp => Err(format!("thread {}: scanner from {} yields {:?}, sequentially {:?}", ti, if cached { "build()" } else { "build_uncached()" }, got, exp)),
                                        Ok(_) => Ok(()),
                                    }
                                }
                            }
                        }
                        2 => {
                            // scan on the shared scanner
                            match (shared, shared_expect) {
                                (Some(sc), Expect::Streams(exp)) => {
                                    local.count("scans_on_shared_scanner");
                                    match probe_streams(sc, keys[0].cfg.modes.len(), inputs) {
                                        Err(e) => Err(format!("thread {}: {}", ti, e)),
                                        Ok(got) if &got != exp => Err(format!("thread {}: shared scanner yields {:?}, sequentially {:?}", ti, got, exp)),
                                        Ok(_) => Ok(()),
                                    }
                                }
                                _ => Ok(()),
                            }
                        }
                        _ => {
                            // iterator from the shared scanner kept alive across a yield
                            if let (Some(sc), Expect::Streams(exp)) = (shared, shared_expect) {
                                let r = sut(|| {
                                    let mut it = sc.find_iter(&inputs[0]);
                                    let first = it.next().map(Tok::from);
                                    std::thread::yield_now();
                                    let mut rest: Vec<Tok> = first.into_iter().collect();
                                    rest.extend(it.map(Tok::from));
                                    rest
                                });
                                local.count("interrupted_scans_on_shared_scanner");
                                match r {
                                    Err(p) => Err(format!("thread {}: scan panicked: {}", ti, p)),
                                    Ok(got) if got != exp[0] => Err(format!("thread {}: interrupted scan yields {:?}, sequentially {:?}", ti, got, exp[0])),
                                    Ok(_) => Ok(()),
                                }
                            } else {
                                Ok(())
                            }
                        }
                    };
                    progress.fetch_add(1, Ordering::Relaxed);
                    local.count("concurrent_ops");
                    if let Err(e) = r {
                        failures.lock().unwrap().push(e);
                        break;
                    }
                }
                counters.lock().unwrap().merge(local);
            });
        }
    });
    let c = counters.into_inner().unwrap();
    for (k, v) in c.counters {
        st.add(&k, v);
    }
    #[cfg(feature = "hooks")]
    {
        let ev = scnr::verif_hooks::cache_log_take();
        st.add("h3_events", ev.len() as u64);
        let mut sorted = ev.clone();
        sorted.sort_by_key(|e| e.seq);
        // distinct lock-order interleavings: windows of 8 consecutive lock acquisitions, threads
        // renamed in order of first occurrence
        for w in sorted.windows(8) {
            let mut names: Vec<u64> = Vec::new();
            let shape: Vec<usize> = w
                .iter()
                .map(|e| {
                    if let Some(i) = names.iter().position(|t| *t == e.thread) {
                        i
                    } else {
                        names.push(e.thread);
                        names.len() - 1
                    }
                })
                .collect();
            if names.len() >= 2 {
                st.nontrivial(hash_of(&(shape, w.iter().map(|e| e.hit).collect::<Vec<_>>())));
            }
        }
        let mut switches = 0u64;
        for w in sorted.windows(2) {
            if w[0].thread != w[1].thread {
                switches += 1;
            }
        }
        st.add("lock_handovers_between_threads", switches);
        st.add("h3_misses", sorted.iter().filter(|e| !e.hit).count() as u64);
        st.add("h3_hits", sorted.iter().filter(|e| e.hit).count() as u64);
    }
    st.count("rounds");
    st.add("threads_started", n_threads as u64);
    let f = failures.into_inner().unwrap();
    if let Some(e) = f.first() {
        return CaseOutcome::Violated(Violation::new(
            e.clone(),
            json!({"kind": "c14", "round": round, "threads": n_threads, "keys": cfgs.iter().map(|c| c.describe()).collect::<Vec<_>>(), "inputs": inputs, "all_failures": f}),
        ));
    }
    st.sample(json!({"threads": n_threads, "ops_per_thread": ops_per_thread, "keys": keys.len()}));
    CaseOutcome::Ok
}

/// Churn round: a few threads hammer `build()` hits on hot configurations in a tight loop while
/// others feed the cache a stream of never-seen configurations (cheap to compile), several hundred
/// per thread: the cache grows by thousands of entries under contention (growth, rehashing and any
/// bound or eviction happen while hits are in flight). Same oracle as the rounds: sequential tables.
pub fn c14_churn_case(rng: &mut Rng, index: u64, st: &mut Stats) -> CaseOutcome {
    let mut p = GenParams::default();
    p.max_nodes = 6;
    let n_hot = rng.range(2, 4);
    let mut hot: Vec<ScannerCfg> = Vec::new();
    let mut guard = 0;
    while hot.len() < n_hot && guard < 50 {
        guard += 1;
        let mut c = gen_multi_mode(rng, &p, 20, 2);
        c.modes[0].name = format!("HOT_{}_{}", index, hot.len());
        if c.all_res().iter().all(|r| print_parse_roundtrip_ok(r)) && c.build_uncached().is_ok() {
            hot.push(c);
        }
    }
    if hot.is_empty() {
        return CaseOutcome::Skipped;
    }
    let inputs: Vec<String> = hot.iter().map(|c| gen_input(rng, &c.all_res(), &p.letters, 20)).collect();
    let mut table: Vec<Vec<Tok>> = Vec::new();
    for (c, i) in hot.iter().zip(inputs.iter()) {
        let s = match c.build_uncached() {
            Ok(s) => s,
            Err(e) => return CaseOutcome::Violated(Violation::new(format!("sequential build_uncached failed: {}", e), json!({"kind": "c14", "cfg": c}))),
        };
        match scan_all(&s, i, 0, 0) {
            Ok(t) => table.push(t),
            Err(e) => return CaseOutcome::Violated(Violation::new(format!("sequential scan failed: {}", e), json!({"kind": "c14", "cfg": c}))),
        }
    }
    let n_hit = *rng.pick(&[2usize, 4, 8]);
    let n_miss = *rng.pick(&[1usize, 2, 4]);
    let scale = std::env::var("VERIF_SCALE").ok().and_then(|s| s.parse::<u64>().ok()).unwrap_or(100).clamp(1, 100) as usize;
    let hits_per_thread = 2_000 * scale / 100 + 20;
    let misses_per_thread = 500 * scale / 100 + 5;
    let failures: Mutex<Vec<String>> = Mutex::new(Vec::new());
    let barrier = std::sync::Barrier::new(n_hit + n_miss);
    let failed = AtomicBool::new(false);
    std::thread::scope(|s| {
        for t in 0..n_hit {
            let (hot, inputs, table, failures, barrier, failed) = (&hot, &inputs, &table, &failures, &barrier, &failed);
            s.spawn(move || {
                barrier.wait();
                for j in 0..hits_per_thread {
                    if failed.load(Ordering::Relaxed) {
                        break;
                    }
                    let k = (j + t) % hot.len();
                    // every third hit goes through the other public entry to the cache: the simple
                    // builder (add_patterns), with its own hot configuration
                    if j % 3 == 2 {
                        let r = sut(|| scnr::ScannerBuilder::new().add_patterns(["hotx+", "hoty", "[0-9]+"]).build());
                        let bad = match r {
                            Err(pm) => Some(format!("hit thread {} iteration {}: add_patterns(..).build() panicked: {}", t, j, pm)),
                            Ok(Err(e)) => Some(format!("hit thread {} iteration {}: add_patterns(..).build() failed: {}", t, j, e)),
                            Ok(Ok(sc)) => match scan_all(&sc, "hotxx 42hoty", 0, 0) {
                                Ok(got)
                                    if got
                                        == vec![
                                            Tok { tt: 0, start: 0, end: 5 },
                                            Tok { tt: 2, start: 6, end: 8 },
                                            Tok { tt: 1, start: 8, end: 12 },
                                        ] =>
                                {
                                    None
                                }
                                Ok(got) => Some(format!("hit thread {} iteration {}: the simple scanner tokenizes its probe as {:?}", t, j, got)),
                                Err(e) => Some(format!("hit thread {} iteration {}: {}", t, j, e)),
                            },
                        };
                        if let Some(m) = bad {
                            failed.store(true, Ordering::Relaxed);
                            failures.lock().unwrap().push(m);
                            break;
                        }
                        continue;
                    }
                    let r = sut(|| hot[k].build_cached());
                    let msg = match r {
                        Err(pm) => Some(format!("hit thread {} iteration {}: build() of a cached configuration panicked: {}", t, j, pm)),
                        Ok(Err(e)) => Some(format!("hit thread {} iteration {}: build() of a valid configuration failed: {}", t, j, e)),
                        Ok(Ok(sc)) => {
                            if j % 8 == 0 {
                                match scan_all(&sc, &inputs[k], 0, 0) {
                                    Ok(got) if got == table[k] => None,
                                    Ok(got) => Some(format!("hit thread {} iteration {}: hot configuration {} scans as {:?}, sequentially {:?}", t, j, k, got, table[k])),
                                    Err(e) => Some(format!("hit thread {} iteration {}: {}", t, j, e)),
                                }
                            } else if sc.mode_name(0) != Some(hot[k].modes[0].name.as_str()) {
                                Some(format!("hit thread {} iteration {}: build() returned a scanner whose mode 0 is {:?}, expected {:?}", t, j, sc.mode_name(0), hot[k].modes[0].name))
                            } else {
                                None
                            }
                        }
                    };
                    if let Some(m) = msg {
                        failed.store(true, Ordering::Relaxed);
                        failures.lock().unwrap().push(m);
                        break;
                    }
                }
            });
        }
        for t in 0..n_miss {
            let (failures, barrier, failed) = (&failures, &barrier, &failed);
            s.spawn(move || {
                barrier.wait();
                for j in 0..misses_per_thread {
                    if failed.load(Ordering::Relaxed) {
                        break;
                    }
                    let kw = format!("q{}x{}x{}", index, t, j);
                    let tt = 3 + j;
                    let mode = scnr::ScannerMode::new("COLD", vec![scnr::Pattern::new(kw.clone(), tt)], Vec::<(usize, usize)>::new());
                    let r = sut(|| scnr::ScannerBuilder::new().add_scanner_mode(mode).build());
                    let msg = match r {
                        Err(pm) => Some(format!("miss thread {} iteration {}: build() of a new configuration panicked: {}", t, j, pm)),
                        Ok(Err(e)) => Some(format!("miss thread {} iteration {}: build() of a valid configuration failed: {}", t, j, e)),
                        Ok(Ok(sc)) => match scan_all(&sc, &kw, 0, 0) {
                            Ok(got) if got == vec![Tok { tt, start: 0, end: kw.len() }] => None,
                            Ok(got) => Some(format!("miss thread {} iteration {}: the scanner built for keyword {:?} (type {}) scans it as {:?}", t, j, kw, tt, got)),
                            Err(e) => Some(format!("miss thread {} iteration {}: {}", t, j, e)),
                        },
                    };
                    if let Some(m) = msg {
                        failed.store(true, Ordering::Relaxed);
                        failures.lock().unwrap().push(m);
                        break;
                    }
                }
            });
        }
    });
    #[cfg(feature = "hooks")]
    {
        scnr::verif_hooks::cache_log_take();
    }
    st.count("churn_rounds");
    st.add("churn_hits", (n_hit * hits_per_thread) as u64);
    st.add("churn_misses_with_new_configurations", (n_miss * misses_per_thread) as u64);
    st.add("threads_started", (n_hit + n_miss) as u64);
    let f = failures.into_inner().unwrap();
    if let Some(first) = f.first() {
        return CaseOutcome::Violated(Violation::new(
            first.clone(),
            json!({"kind": "c14", "churn_round": index, "hit_threads": n_hit, "miss_threads": n_miss, "hot": hot.iter().map(|c| c.describe()).collect::<Vec<_>>(), "all_failures": f}),
        ));
    }
    st.nontrivial(hash_of(&(index, n_hit, n_miss, 0xC4u8)));
    CaseOutcome::Ok
}

/// One round as a worker-process case.
pub fn c14_case(rng: &mut Rng, i: u64, st: &mut Stats) -> CaseOutcome {
    let progress = std::sync::atomic::AtomicU64::new(0);
    c14_round(rng, i, st, &progress)
}

pub fn c14(tier: Tier) -> i32 {
    let ctx = Ctx::new("C14", tier, "exploration");
    let rounds = ctx.scale(320, 20_000);
    // Rounds run in worker processes: memory corruption caused by a race kills a worker, which is
    // observed and attributed (signal + round), and a worker whose tasks are all blocked in a futex
    // wait for 120 s (normal: about a second) is reported as a deadlock.
    // Only a few workers at a time: the threads of a round must really run in parallel (with 16
    // workers of up to 16 threads each on 16 cores they would merely be time-sliced and narrow
    // race windows would hardly ever be hit).
    let mut wctx = Ctx::new("C14", tier, "exploration");
    wctx.threads = 3;
    wctx.start = ctx.start;
    let mut res = run_cases_subprocess_with_timeout(&wctx, 1, rounds, 10, Some(120));
    // stream 2: churn rounds (cache growth by thousands of entries under contention)
    let churn = ctx.scale(36, 1_500);
    if res.violations.is_empty() {
        res.merge(run_cases_subprocess_with_timeout(&wctx, 2, churn, 3, Some(120)));
    }
    // Send + Sync probe result is reported by the driver (it is a build-time observation)
    if let Ok(p) = std::env::var("VERIF_SEND_SYNC_PROBE") {
        res.stats.add(&format!("send_sync_probe_{}", p), 1);
    }
    let report = Report::new(
        "stream 2 (churn): 2-8 threads repeat build() of 2-4 hot configurations in a tight loop (2000 times each, every third time through add_patterns(..).build(), the simple builder; every 8th result scanned and compared) while 1-4 threads build 500 never-seen configurations each, so that the cache grows by thousands of entries while hits are in flight; three rounds per worker process. stream 1: rounds of 2-16 (one in eleven: 33) threads started at a barrier; each thread runs 10-40 operations drawn from: build() of hot keys shared by all threads, of cold keys unique to the round and of failing keys; build_uncached(); complete scans on one shared Scanner; scans on the shared Scanner interrupted by a yield; with yields and 50 us sleeps injected between operations. Every result is compared with a table computed single-threaded with build_uncached() beforehand (token streams on probe inputs in every mode; Ok/Err). Hook H3 records the order in which the cache lock was taken: distinct_nontrivial counts the distinct shapes of 8 consecutive lock acquisitions that involve at least two threads (thread identities renamed in order of first occurrence, with the hit/miss pattern). Rounds run in worker processes of 10 rounds each: a worker killed by a signal (memory corruption) is attributed to the round it was running, and a worker that completes nothing for 120 s with all its tasks blocked in a futex wait is reported as a deadlock (otherwise a slow worker is inconclusive). Scanner: Send + Sync is a compile-time probe built by the driver (/verif/probe_send_sync, a separate crate). Thorough adds ThreadSanitizer and Miri runs of the same workload.",
    )
    .floor("rounds", 200)
    .floor("churn_rounds", 20)
    .floor("churn_misses_with_new_configurations", 10_000)
    .floor("concurrent_ops", 20_000)
    .floor("cached_builds", 5_000)
    .floor("failing_builds_under_contention", 100)
    .floor("scans_on_shared_scanner", 3_000)
    .floor("rounds_with_simultaneous_first_use_of_a_fresh_scanner", 80)
    .floor("simultaneous_first_uses", 2_000)
    .floor("send_sync_probe_compiled", 1)
    .assume("schedules are those the OS produced under stress (plus TSan/Miri seeds in thorough); they are sampled, not enumerated");
    // the lock-order floors need hook H3; without the hook feature the functional stress still decides
    let hooks = cfg!(feature = "hooks") && std::env::var("VERIF_HOOKS").map_or(true, |v| v != "0");
    let report = if hooks {
        report.floor("lock_handovers_between_threads", 1_000).floor("distinct_nontrivial", 200)
    } else {
        // distinct_nontrivial is then the number of rounds (each round has its own keys and plans)
        for i in 0..res.stats.get("rounds") {
            res.stats.nontrivial(i);
        }
        report.assume("hook feature unavailable in the tree under test: lock-order interleavings could not be counted")
    };
    finish(&ctx, res, report)
}
